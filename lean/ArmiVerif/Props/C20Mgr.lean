/-
C20 (continuation round) — theorems about the parts of crossSectionGroupManager.py added to Model/XsGroup.lean:
group-bound validation and the interval meaning of a group index, the whole-list environment-group update,
eligibility by flags, two-pass grouping (core blocks, then blueprint-only copies), the manager-level bookkeeping of
`createRepresentativeBlocks` / `_modifyUnrepresentedXSIDs` (frame condition, representatives unchanged when built
twice), `getNextAvailableXsTypes`, the component-temperature average with its zero-mass fall-back, nuclide
temperatures from the raw per-component terms, and the area-weighted average of the 1-D collections.
-/
import ArmiVerif.Props.C20

namespace ArmiVerif.XsGroup

/-! ## group bounds -/

/-- **accepted burnup bounds are ascending (ties allowed), each in (0, 100] and not below the start value** -/
theorem buBoundsOk_sorted (last : Rat) (bs : List Rat) (h : buBoundsOk last bs = true) :
    bs.Pairwise (· ≤ ·) ∧ ∀ b ∈ bs, last ≤ b ∧ 0 < b ∧ b ≤ 100 := by
  induction bs generalizing last with
  | nil => simp
  | cons u us ih =>
    simp only [buBoundsOk] at h
    split at h
    · cases h
    · rename_i h1
      split at h
      · cases h
      · rename_i h2
        obtain ⟨hp, hb⟩ := ih u h
        have h1' : 0 < u ∧ u ≤ 100 := by
          constructor
          · exact lt_of_not_ge (fun hh => h1 (Or.inl hh))
          · exact le_of_not_gt (fun hh => h1 (Or.inr hh))
        have hlu : last ≤ u := le_of_not_gt h2
        refine ⟨List.pairwise_cons.2 ⟨fun b hbm => (hb b hbm).1, hp⟩, ?_⟩
        intro b hbm
        rcases List.mem_cons.1 hbm with rfl | hbm
        · exact ⟨hlu, h1'.1, h1'.2⟩
        · exact ⟨le_trans hlu (hb b hbm).1, (hb b hbm).2⟩

/-- **accepted temperature bounds are ascending and not below absolute zero** -/
theorem tempBoundsOk_sorted (last : Rat) (bs : List Rat) (h : tempBoundsOk last bs = true) :
    bs.Pairwise (· ≤ ·) ∧ ∀ b ∈ bs, last ≤ b ∧ -27315 / 100 ≤ b := by
  induction bs generalizing last with
  | nil => simp
  | cons u us ih =>
    simp only [tempBoundsOk] at h
    split at h
    · cases h
    · rename_i h1
      split at h
      · cases h
      · rename_i h2
        obtain ⟨hp, hb⟩ := ih u h
        have hlu : last ≤ u := le_of_not_gt h2
        have hz : -27315 / 100 ≤ u := le_of_not_gt h1
        refine ⟨List.pairwise_cons.2 ⟨fun b hbm => (hb b hbm).1, hp⟩, ?_⟩
        intro b hbm
        rcases List.mem_cons.1 hbm with rfl | hbm
        · exact ⟨hlu, hz⟩
        · exact ⟨le_trans hlu (hb b hbm).1, (hb b hbm).2⟩

example : setBuGroupBounds [5, 10, 10, 100] = some [5, 10, 10, 100] ∧ setBuGroupBounds [5, 3] = none ∧
    setBuGroupBounds [0] = none ∧ setTempGroupBounds [-300] = none := by decide +kernel

/-- **interval meaning of the group index**: for ascending bounds, group `j` is the half-open interval
(bounds[j−1], bounds[j]] — a value exactly ON a bound belongs to the group BELOW it, the last group has no
upper bound. Any index with that property is the one the code computes. -/
theorem firstLE_eq_of_interval (x : Rat) (bounds : List Rat) (j : Nat) (hj : j ≤ bounds.length)
    (hs : bounds.Pairwise (· ≤ ·))
    (hlo : ∀ b, 1 ≤ j → bounds[j - 1]? = some b → b < x)
    (hhi : ∀ b, bounds[j]? = some b → x ≤ b) : firstLE x bounds = j := by
  obtain ⟨s1, s2⟩ := firstLE_spec x bounds
  have hk := firstLE_le x bounds
  rcases Nat.lt_trichotomy (firstLE x bounds) j with hlt | heq | hgt
  · -- the chosen bound is ≥ x, but it is ≤ bounds[j-1] < x
    exfalso
    have hk' : firstLE x bounds < bounds.length := by omega
    have hj1 : j - 1 < bounds.length := by omega
    have hx := s2 _ (List.getElem?_eq_getElem hk')
    have hb := hlo _ (by omega) (List.getElem?_eq_getElem hj1)
    rcases Nat.lt_or_ge (firstLE x bounds) (j - 1) with hlt' | hge
    · have := List.pairwise_iff_getElem.1 hs _ _ hk' hj1 hlt'
      exact absurd (lt_of_le_of_lt (le_trans hx this) hb) (lt_irrefl _)
    · have he : firstLE x bounds = j - 1 := by omega
      have : bounds[firstLE x bounds] = bounds[j - 1] := by simp [he]
      rw [this] at hx
      exact absurd (lt_of_le_of_lt hx hb) (lt_irrefl _)
  · exact heq
  · exfalso
    obtain ⟨b, hb, hlt⟩ := s1 j hgt
    exact absurd (lt_of_lt_of_le hlt (hhi b hb)) (lt_irrefl _)

example : firstLE 3 [1, 3, 7] = 1 ∧ firstLE (7/2) [1, 3, 7] = 2 ∧ firstLE 8 [1, 3, 7] = 3 := by decide +kernel

/-! ## the whole-list environment-group update -/

/-- **disabled updates leave every block's environment group as it is** -/
theorem update_disabled (bb tb : List Rat) (bs : List EBlk) :
    updateEnvironmentGroups false bb tb bs = some (bs.map (·.env)) := by
  simp [updateEnvironmentGroups]

/-- **each block's new environment group depends on that block alone** (its burnup, its temperature, the bounds):
the result lists, position by position, the value `updateOne` gives for the block at that position. -/
theorem update_pointwise (bb tb : List Rat) (bs : List EBlk) (ns : List Nat)
    (h : updateEnvironmentGroups true bb tb bs = some ns) :
    List.Forall₂ (fun b n => updateOne bb tb b = some n) bs ns := by
  simp only [updateEnvironmentGroups, Bool.not_true, Bool.false_eq_true, if_false] at h
  induction bs generalizing ns with
  | nil => simp only [updateAll, Option.some.injEq] at h; subst h; exact List.Forall₂.nil
  | cons b bs ih =>
    simp only [updateAll] at h
    split at h
    · cases h
    · rename_i n hn
      cases hr : updateAll bb tb bs with
      | none => rw [hr] at h; cases h
      | some r =>
        rw [hr] at h
        simp only [Option.map_some, Option.some.injEq] at h
        subst h
        exact List.Forall₂.cons hn (ih r hr)

/-- with a single burnup group and a single temperature group nothing changes (two-letter XS types stay usable) -/
theorem update_single_group (bs : List EBlk) :
    updateEnvironmentGroups true [] [] bs = some (bs.map (·.env)) := by
  simp only [updateEnvironmentGroups, Bool.not_true, Bool.false_eq_true, if_false]
  induction bs with
  | nil => rfl
  | cons b bs ih => simp [updateAll, updateOne, envGroupNum, ih]

/-- **with at most 53 = 52 + 1 group numbers the update never fails**, and every block then carries the group
number of its own burnup and temperature interval. (The setter refuses numbers above 52.) -/
theorem update_total (bb tb : List Rat) (bs : List EBlk)
    (hn : (bb.length + 1) * (tb.length + 1) ≤ 53) (hm : ¬ (bb.length + 1 = 1 ∧ tb.length + 1 = 1)) :
    ∃ ns, updateEnvironmentGroups true bb tb bs = some ns ∧
      List.Forall₂ (fun b n => envGroupNum b.bu bb b.useTemp b.tempC tb = some n) bs ns := by
  simp only [updateEnvironmentGroups, Bool.not_true, Bool.false_eq_true, if_false]
  induction bs with
  | nil => exact ⟨[], rfl, List.Forall₂.nil⟩
  | cons b bs ih =>
    obtain ⟨ns, hns, hf⟩ := ih
    obtain ⟨n, hn1, hlt, _, _⟩ := env_group_total b.bu bb b.useTemp b.tempC tb hm
    have hle : ¬ n > 52 := by omega
    refine ⟨n :: ns, ?_, List.Forall₂.cons hn1 hf⟩
    simp [updateAll, updateOne, hn1, hle, hns]

example : updateEnvironmentGroups true [1, 3] [400, 600] [⟨5/2, true, 500, 0⟩, ⟨0, false, 0, 7⟩] = some [4, 0] := by
  decide +kernel

/-! ## eligibility -/

/-- no filter: every block is eligible -/
theorem eligible_no_filter (f : Nat) : eligible f [] = true := by simp [eligible, hasFlagsAny]

/-- **with a filter, a block is eligible exactly when it carries ALL the flags of at least one listed type**
(sharing only some flags of a multi-word type is not enough; a block without flags is never eligible). -/
theorem eligible_iff (f : Nat) (spec : List Nat) (hne : spec ≠ []) (hs : ∀ t ∈ spec, t ≠ 0) :
    eligible f spec = true ↔ (f ≠ 0 ∧ ∃ t ∈ spec, f &&& t = t) := by
  have he : spec.isEmpty = false := by cases spec <;> simp_all
  simp only [eligible, hasFlagsAny, he, Bool.false_eq_true, if_false, List.any_eq_true]
  constructor
  · rintro ⟨t, ht, h⟩
    have h0 := hs t ht
    simp only [h0, if_false] at h
    by_cases hf : f = 0
    · simp [hf] at h
    · simp only [hf, if_false, beq_iff_eq] at h
      exact ⟨hf, t, ht, h⟩
  · rintro ⟨hf, t, ht, h⟩
    refine ⟨t, ht, ?_⟩
    simp [hs t ht, hf, h]

example : eligible 5 [1, 6] = true ∧ eligible 5 [6] = false ∧ eligible 0 [1] = false := by decide

/-! ## two-pass grouping: core blocks, then blueprint-only copies -/

/-- **blueprint-only copies never enter a group that holds core blocks**: a group of `makeCrossSectionGroups` whose
key occurs in the core consists of exactly the core blocks with that key (in core order); any other group consists
of blueprint copies only. Together with `groups_partition` every core block is in exactly one group. -/
theorem makeGroups_split {β} (key : β → List Nat) (core bp : List β) :
    ∀ g ∈ makeGroups key core bp,
      (g.1 ∈ core.map key → g.2 = core.filter (fun b => key b == g.1)) ∧
      (g.1 ∉ core.map key → g.2 = (missingBlueprint key core bp).filter (fun b => key b == g.1)) := by
  intro g hg
  obtain ⟨_, h2, _, _⟩ := groups_partition key (core ++ missingBlueprint key core bp)
  have hg2 := (h2 g hg).1
  rw [List.filter_append] at hg2
  constructor
  · intro hin
    have : (missingBlueprint key core bp).filter (fun b => key b == g.1) = [] := by
      rw [List.filter_eq_nil_iff]
      intro b hb
      simp only [missingBlueprint, List.mem_filter, Bool.not_eq_true', List.contains_eq_mem,
        decide_eq_false_iff_not] at hb
      simp only [beq_iff_eq]
      intro hk
      exact hb.2 (hk ▸ hin)
    rw [hg2, this, List.append_nil]
  · intro hnin
    have : core.filter (fun b => key b == g.1) = [] := by
      rw [List.filter_eq_nil_iff]
      intro b hb
      simp only [beq_iff_eq]
      intro hk
      exact hnin (List.mem_map.2 ⟨b, hb, hk⟩)
    rw [hg2, this, List.nil_append]

/-- the core blocks alone are partitioned exactly as without the blueprint pass -/
theorem makeGroups_core {β} (key : β → List Nat) (core bp : List β) :
    ∀ b ∈ core, ∃ g ∈ makeGroups key core bp, g.1 = key b ∧ g.2 = core.filter (fun b' => key b' == key b) := by
  intro b hb
  obtain ⟨_, _, h3, _⟩ := groups_partition key (core ++ missingBlueprint key core bp)
  obtain ⟨g, hg, hk, _⟩ := h3 b (List.mem_append_left _ hb)
  refine ⟨g, hg, hk, ?_⟩
  have := (makeGroups_split key core bp g hg).1 (hk ▸ List.mem_map.2 ⟨b, hb, rfl⟩)
  rw [this, hk]

/-! ## manager-level bookkeeping -/

private theorem mem_groups_iff {β} (key : β → List Nat) (bs : List β) (g : List Nat × List β) :
    g ∈ groups key bs ↔ (g.1 ∈ bs.map key ∧ g.2 = bs.filter (fun b => key b == g.1)) := by
  simp only [groups, List.mem_map, mem_sortKeys, mem_firstOccurrences]
  constructor
  · rintro ⟨k, ⟨b, hb, rfl⟩, rfl⟩; exact ⟨⟨b, hb, rfl⟩, rfl⟩
  · rintro ⟨⟨b, hb, hk⟩, h2⟩
    refine ⟨g.1, ⟨b, hb, hk⟩, ?_⟩
    rw [← h2]

/-- **a key gets a representative exactly when it is not pre-generated and some block with that key is a candidate** -/
theorem mem_representedKeys (pregen : List Nat → Bool) (bs : List MBlk) (k : List Nat) :
    k ∈ representedKeys pregen bs ↔ (pregen k = false ∧ ∃ b ∈ bs, b.valid = true ∧ b.key = k) := by
  simp only [representedKeys, List.mem_map, List.mem_filter, Bool.and_eq_true, Bool.not_eq_true',
    List.any_eq_true, mem_groups_iff]
  constructor
  · rintro ⟨g, ⟨⟨_, hg2⟩, hp, b, hb, hv⟩, rfl⟩
    rw [hg2] at hb
    obtain ⟨hb1, hb2⟩ := List.mem_filter.1 hb
    exact ⟨hp, b, hb1, hv, by simpa using hb2⟩
  · rintro ⟨hp, b, hb, hv, rfl⟩
    refine ⟨(b.key, bs.filter (fun b' => b'.key == b.key)), ⟨⟨⟨b, hb, rfl⟩, rfl⟩, hp, b, ?_, hv⟩, rfl⟩
    exact List.mem_filter.2 ⟨hb, by simp⟩

/-- a key is unrepresented exactly when it is not pre-generated, occurs, and NO block with that key is a candidate -/
theorem mem_unrepresentedKeys (pregen : List Nat → Bool) (bs : List MBlk) (k : List Nat) :
    k ∈ unrepresentedKeys pregen bs ↔
      (pregen k = false ∧ k ∈ bs.map MBlk.key ∧ ∀ b ∈ bs, b.key = k → b.valid = false) := by
  simp only [unrepresentedKeys, List.mem_map, List.mem_filter, Bool.and_eq_true, Bool.not_eq_true',
    List.any_eq_false, mem_groups_iff]
  constructor
  · rintro ⟨g, ⟨⟨hg1, hg2⟩, hp, hall⟩, rfl⟩
    refine ⟨hp, by simpa using hg1, ?_⟩
    intro b hb hk
    have : b ∈ g.2 := by rw [hg2]; exact List.mem_filter.2 ⟨hb, by simp [hk]⟩
    simpa using hall b this
  · rintro ⟨hp, hk, hall⟩
    refine ⟨(k, bs.filter (fun b' => b'.key == k)), ⟨⟨by simpa using hk, rfl⟩, hp, ?_⟩, rfl⟩
    intro b hb
    obtain ⟨hb1, hb2⟩ := List.mem_filter.1 hb
    simpa using hall b hb1 (by simpa using hb2)

/-- **every group is exactly one of: pre-generated, represented, unrepresented** -/
theorem group_status (pregen : List Nat → Bool) (bs : List MBlk) (b : MBlk) (hb : b ∈ bs) :
    (pregen b.key = true ∧ b.key ∉ representedKeys pregen bs ∧ b.key ∉ unrepresentedKeys pregen bs) ∨
    (pregen b.key = false ∧ b.key ∈ representedKeys pregen bs ∧ b.key ∉ unrepresentedKeys pregen bs) ∨
    (pregen b.key = false ∧ b.key ∉ representedKeys pregen bs ∧ b.key ∈ unrepresentedKeys pregen bs) := by
  rw [mem_representedKeys, mem_unrepresentedKeys]
  cases hp : pregen b.key with
  | true => left; simp
  | false =>
    right
    by_cases hex : ∃ b' ∈ bs, b'.valid = true ∧ b'.key = b.key
    · left
      refine ⟨rfl, ⟨rfl, hex⟩, ?_⟩
      rintro ⟨_, _, hall⟩
      obtain ⟨b', hb', hv, hk⟩ := hex
      rw [hall b' hb' hk] at hv; cases hv
    · right
      refine ⟨rfl, fun h => hex h.2, rfl, List.mem_map.2 ⟨b, hb, rfl⟩, ?_⟩
      intro b' hb' hk
      cases hv : b'.valid with
      | false => rfl
      | true => exact absurd ⟨b', hb', hv, hk⟩ hex

private theorem alternateEnv_some (reps : List (List Nat)) (t e : Nat) (h : alternateEnv reps t = some e) :
    [t, e] ∈ reps := by
  unfold alternateEnv at h
  split at h
  · rename_i x e' hf
    simp only [Option.some.injEq] at h
    subst h
    have hm := List.mem_of_find?_eq_some hf
    have hp := List.find?_some hf
    simp only [List.head?_cons, beq_iff_eq, Option.some.injEq] at hp
    subst hp
    exact hm
  · cases h

/-- how `_modifyUnrepresentedXSIDs` acts on one block -/
def modifyOne (pregen : List Nat → Bool) (bs : List MBlk) (b : MBlk) : MBlk :=
  if (unrepresentedKeys pregen bs).contains b.key then
    (match alternateEnv (representedKeys pregen bs) b.xs with | some e => { b with env := e } | none => b) else b

theorem modifyUnrepresented_eq (pregen : List Nat → Bool) (bs : List MBlk) :
    modifyUnrepresented pregen bs = bs.map (modifyOne pregen bs) := rfl

/-- **frame condition of `_modifyUnrepresentedXSIDs`**: XS type and candidate status never change; a block of a
represented or pre-generated group is not touched at all; a block that IS moved lands in a represented group of
its own XS type. -/
theorem modifyOne_frame (pregen : List Nat → Bool) (bs : List MBlk) (b : MBlk) :
    (modifyOne pregen bs b).xs = b.xs ∧ (modifyOne pregen bs b).valid = b.valid ∧
    (b.key ∉ unrepresentedKeys pregen bs → modifyOne pregen bs b = b) ∧
    (modifyOne pregen bs b ≠ b → (modifyOne pregen bs b).key ∈ representedKeys pregen bs) := by
  unfold modifyOne
  split
  · rename_i hc
    cases ha : alternateEnv (representedKeys pregen bs) b.xs with
    | none => simp
    | some e =>
      refine ⟨rfl, rfl, ?_, ?_⟩
      · intro hn; exact absurd (by simpa using hc) hn
      · intro _; exact alternateEnv_some _ _ _ ha
  · simp

/-- candidates are never moved: only blocks of groups WITHOUT any candidate are re-assigned -/
theorem modifyOne_valid (pregen : List Nat → Bool) (bs : List MBlk) (b : MBlk) (hb : b ∈ bs)
    (hv : b.valid = true) : modifyOne pregen bs b = b := by
  apply (modifyOne_frame pregen bs b).2.2.1
  rw [mem_unrepresentedKeys]
  rintro ⟨_, _, hall⟩
  rw [hall b hb rfl] at hv; cases hv

private theorem filter_map_fix {α} (f : α → α) (p : α → Bool) (l : List α)
    (h1 : ∀ a ∈ l, p a = true → f a = a) (h2 : ∀ a ∈ l, p (f a) = p a) :
    (l.map f).filter p = l.filter p := by
  induction l with
  | nil => rfl
  | cons a as ih =>
    have ih' := ih (fun x hx => h1 x (by simp [hx])) (fun x hx => h2 x (by simp [hx]))
    simp only [List.map_cons, List.filter_cons, h2 a (by simp), ih']
    cases hp : p a with
    | true => simp [h1 a (by simp) hp]
    | false => simp

/-- **building the representatives again gives the same representatives**: after the re-assignment the candidate
blocks of every key are exactly those before (same blocks, same order), so — `average_uses_only_candidates`,
`burnup_uses_only_candidates`, `median_is_member` — every representative of a second call is built from the same
members; and the set of represented keys is the same. -/
theorem modify_candidates_unchanged (pregen : List Nat → Bool) (bs : List MBlk) (k : List Nat) :
    (modifyUnrepresented pregen bs).filter (fun b => b.valid && b.key == k) =
      bs.filter (fun b => b.valid && b.key == k) := by
  rw [modifyUnrepresented_eq]
  apply filter_map_fix
  · intro a ha hp
    simp only [Bool.and_eq_true] at hp
    exact modifyOne_valid pregen bs a ha hp.1
  · intro a ha
    cases hv : a.valid with
    | true => simp [modifyOne_valid pregen bs a ha hv, hv]
    | false =>
      have := (modifyOne_frame pregen bs a).2.1
      simp [this, hv]

theorem modify_represented_stable (pregen : List Nat → Bool) (bs : List MBlk) (k : List Nat) :
    k ∈ representedKeys pregen (modifyUnrepresented pregen bs) ↔ k ∈ representedKeys pregen bs := by
  have key : ∀ l : List MBlk, (∃ b ∈ l, b.valid = true ∧ b.key = k) ↔
      l.filter (fun b => b.valid && b.key == k) ≠ [] := by
    intro l
    constructor
    · rintro ⟨b, hb, hv, hk⟩ hnil
      have : b ∈ l.filter (fun b => b.valid && b.key == k) := List.mem_filter.2 ⟨hb, by simp [hv, hk]⟩
      rw [hnil] at this; cases this
    · intro hne
      obtain ⟨b, hb⟩ := List.exists_mem_of_ne_nil _ hne
      obtain ⟨hb1, hb2⟩ := List.mem_filter.1 hb
      simp only [Bool.and_eq_true, beq_iff_eq] at hb2
      exact ⟨b, hb1, hb2.1, hb2.2⟩
  rw [mem_representedKeys, mem_representedKeys, key, key, modify_candidates_unchanged]

/-- after the re-assignment no block is left in an unrepresented group if its XS type has a represented group -/
theorem modify_resolves (pregen : List Nat → Bool) (bs : List MBlk) (b : MBlk)
    (hu : b.key ∈ unrepresentedKeys pregen bs) (e : Nat) (hr : [b.xs, e] ∈ representedKeys pregen bs) :
    (modifyOne pregen bs b).key ∈ representedKeys pregen bs := by
  unfold modifyOne
  have hc : (unrepresentedKeys pregen bs).contains b.key = true := by simpa using hu
  simp only [hc, if_true]
  cases ha : alternateEnv (representedKeys pregen bs) b.xs with
  | some e' => exact alternateEnv_some _ _ _ ha
  | none =>
    exfalso
    unfold alternateEnv at ha
    split at ha
    · cases ha
    · rename_i hno
      cases hf : (representedKeys pregen bs).find? (fun k => k.head? == some b.xs) with
      | none =>
        have := List.find?_eq_none.1 hf _ hr
        simp at this
      | some k =>
        have hm := List.mem_of_find?_eq_some hf
        rw [mem_representedKeys] at hm
        obtain ⟨_, b', _, _, hk⟩ := hm
        exact hno b'.xs b'.env (by rw [hf, ← hk]; rfl)

example : representedKeys (fun k => k == [67, 65]) [⟨65, 65, true⟩, ⟨65, 66, false⟩, ⟨66, 65, false⟩, ⟨67, 65, true⟩]
      = [[65, 65]] ∧
    (modifyUnrepresented (fun k => k == [67, 65]) [⟨65, 65, true⟩, ⟨65, 66, false⟩, ⟨66, 65, false⟩, ⟨67, 65, true⟩]).map (·.env)
      = [65, 65, 65, 65] := by decide

/-! ## next available XS types -/

private theorem allowable_sorted : allowableTypes.Pairwise (· < ·) := by decide +kernel
private theorem allowable_adm : ∀ c ∈ allowableTypes, admissibleChar c = true := by decide +kernel

/-- **`getNextAvailableXsTypes` hands out exactly `howMany` admissible one-letter types, pairwise distinct
(ascending), none of them allocated or excluded** -/
theorem nextAvailable_spec (n : Nat) (allocated : List (List Nat)) (r : List Nat)
    (h : nextAvailableXsTypes n allocated = some r) :
    r.length = n ∧ r.Pairwise (· < ·) ∧ ∀ c ∈ r, admissibleChar c = true ∧ [c] ∉ allocated := by
  unfold nextAvailableXsTypes at h
  simp only at h
  split at h
  · cases h
  · rename_i hlen
    simp only [Option.some.injEq] at h
    subst h
    refine ⟨by rw [List.length_take]; omega, ?_, ?_⟩
    · exact ((allowable_sorted.filter _).sublist (List.take_sublist _ _))
    · intro c hc
      have hm := List.mem_of_mem_take hc
      obtain ⟨h1, h2⟩ := List.mem_filter.1 hm
      exact ⟨allowable_adm c h1, by simpa using h2⟩

example : nextAvailableXsTypes 3 [[65], [66], [65, 66]] = some [67, 68, 69] := by decide +kernel

/-! ## component temperature -/

private theorem rsum_zipMul (ws ms : List Rat) (hl : ws.length = ms.length) : rsum (zipMul ws ms) = dot ws ms := by
  induction ws generalizing ms with
  | nil => cases ms <;> simp [zipMul, dot, rsum]
  | cons w ws ih =>
    cases ms with
    | nil => simp at hl
    | cons m ms =>
      have := ih ms (by simpa using hl)
      simp only [zipMul, dot, rsum, List.foldr_cons] at *
      rw [this]

private theorem dot_zipMul (ws ms ts : List Rat) (h1 : ws.length = ms.length) (h2 : ws.length = ts.length) :
    dot ws (zipMul ts ms) = dot (zipMul ws ms) ts := by
  induction ws generalizing ms ts with
  | nil => cases ms <;> cases ts <;> simp [zipMul, dot]
  | cons w ws ih =>
    cases ms with
    | nil => simp at h1
    | cons m ms =>
      cases ts with
      | nil => simp at h2
      | cons t ts =>
        simp only [zipMul, dot]
        rw [ih ms ts (by simpa using h1) (by simpa using h2)]; ring

private theorem dot_div (ws xs : List Rat) (s : Rat) : dot (ws.map (· / s)) xs = dot ws xs / s := by
  induction ws generalizing xs with
  | nil => simp [dot]
  | cons w ws ih =>
    cases xs with
    | nil => simp [dot]
    | cons x xs => simp only [List.map_cons, dot]; rw [ih]; ring

/-- **with non-zero weighted mass the averaged component temperature is the mean of the matching components'
temperatures weighted by member weight × component mass** (the normalisation of the weights cancels) -/
theorem componentTemperature_eq_wmean (ws ms ts : List Rat) (h1 : ws.length = ms.length)
    (h2 : ws.length = ts.length) (hs : rsum ws ≠ 0) (hm : dot ws ms ≠ 0) :
    componentTemperature ws ms ts = some (wmean (zipMul ws ms) ts) := by
  unfold componentTemperature
  simp only [hs, if_false, dot_div]
  have hm' : ¬ dot ws ms / rsum ws = 0 := by
    intro h; rcases div_eq_zero_iff.1 h with h | h
    · exact hm h
    · exact hs h
  simp only [hm', if_false, wmean, rsum_zipMul ws ms h1, dot_zipMul ws ms ts h1 h2]
  congr 1
  field_simp

private theorem rsum_bounds (ts : List Rat) (lo hi : Rat) (h : ∀ t ∈ ts, lo ≤ t ∧ t ≤ hi) :
    lo * ts.length ≤ rsum ts ∧ rsum ts ≤ hi * ts.length := by
  induction ts with
  | nil => simp [rsum]
  | cons t ts ih =>
    have := ih (fun x hx => h x (by simp [hx]))
    have ht := h t (by simp)
    simp only [rsum, List.foldr_cons, List.length_cons, Nat.cast_add, Nat.cast_one] at *
    constructor <;> nlinarith

private theorem dot_nonneg (ws ms : List Rat) (hw : ∀ w ∈ ws, 0 ≤ w) (hm : ∀ m ∈ ms, 0 ≤ m) : 0 ≤ dot ws ms := by
  induction ws generalizing ms with
  | nil => simp [dot]
  | cons w ws ih =>
    cases ms with
    | nil => simp [dot]
    | cons m ms =>
      have := ih ms (fun x hx => hw x (by simp [hx])) (fun x hx => hm x (by simp [hx]))
      have := mul_nonneg (hw w (by simp)) (hm m (by simp))
      simp only [dot]; linarith

private theorem zipMul_nonneg (ws ms : List Rat) (hw : ∀ w ∈ ws, 0 ≤ w) (hm : ∀ m ∈ ms, 0 ≤ m) :
    ∀ x ∈ zipMul ws ms, 0 ≤ x := by
  induction ws generalizing ms with
  | nil => intro x hx; simp [zipMul] at hx
  | cons w ws ih =>
    cases ms with
    | nil => intro x hx; simp [zipMul] at hx
    | cons m ms =>
      intro x hx
      simp only [zipMul, List.mem_cons] at hx
      rcases hx with rfl | hx
      · exact mul_nonneg (hw w (by simp)) (hm m (by simp))
      · exact ih ms (fun x hx => hw x (by simp [hx])) (fun x hx => hm x (by simp [hx])) x hx

private theorem zipMul_length (ws ms : List Rat) (h : ws.length = ms.length) : (zipMul ws ms).length = ws.length := by
  induction ws generalizing ms with
  | nil => simp [zipMul]
  | cons w ws ih =>
    cases ms with
    | nil => simp at h
    | cons m ms => simp [zipMul, ih ms (by simpa using h)]

/-- **the averaged component temperature lies between the members' smallest and largest value — in the
mass-weighted case and in the zero-mass fall-back (plain mean) alike** -/
theorem componentTemperature_between (ws ms ts : List Rat) (lo hi : Rat) (h1 : ws.length = ms.length)
    (h2 : ws.length = ts.length) (hne : ts ≠ []) (hs : rsum ws ≠ 0)
    (hw : ∀ w ∈ ws, 0 ≤ w) (hm : ∀ m ∈ ms, 0 ≤ m) (ht : ∀ t ∈ ts, lo ≤ t ∧ t ≤ hi) :
    ∃ x, componentTemperature ws ms ts = some x ∧ lo ≤ x ∧ x ≤ hi := by
  by_cases hd : dot ws ms = 0
  · -- fall-back: arithmetic mean
    have hz : dot (ws.map (· / rsum ws)) ms = 0 := by rw [dot_div, hd]; simp
    have hemp : ts.isEmpty = false := by cases ts <;> simp_all
    refine ⟨rsum ts / ts.length, by simp [componentTemperature, hs, hz, hemp], ?_⟩
    obtain ⟨b1, b2⟩ := rsum_bounds ts lo hi ht
    have hpos : (0 : Rat) < ts.length := by
      have : 0 < ts.length := List.length_pos_iff.2 hne
      exact_mod_cast this
    exact ⟨(le_div_iff₀ hpos).2 b1, (div_le_iff₀ hpos).2 b2⟩
  · refine ⟨_, componentTemperature_eq_wmean ws ms ts h1 h2 hs hd, ?_⟩
    apply wmean_between_min_max
    · rw [zipMul_length ws ms h1, h2]
    · exact zipMul_nonneg ws ms hw hm
    · rw [rsum_zipMul ws ms h1]
      exact lt_of_le_of_ne (dot_nonneg ws ms hw hm) (Ne.symm hd)
    · exact ht

example : componentTemperature [1, 1] [2, 2] [300, 500] = some 400 ∧
    componentTemperature [1, 3] [0, 0] [300, 500] = some 400 ∧
    componentTemperature [1, 3] [1, 1] [300, 500] = some 450 := by decide +kernel

/-! ## nuclide temperatures -/

/-- a component that does not DECLARE the nuclide never contributes to its temperature; one that declares it
(even with density zero: trace) always does, with positive weight -/
theorem densWithTrace_undeclared (c : CompT) (h : c.declared = false) : densWithTrace c = 0 := by
  simp [densWithTrace, h]

theorem densWithTrace_pos (c : CompT) (h : c.declared = true) (hn : 0 ≤ c.n) : 0 < densWithTrace c := by
  unfold densWithTrace
  simp only [h, if_true]
  split
  · unfold traceDensity; norm_num
  · rename_i hne; exact lt_of_le_of_ne hn (Ne.symm hne)

private theorem rsum_map_mul (l : List CompT) (f : CompT → Rat) (k : Rat) :
    rsum (l.map (fun c => k * f c)) = k * rsum (l.map f) := by
  induction l with
  | nil => simp [rsum]
  | cons c cs ih => simp only [rsum, List.map_cons, List.foldr_cons] at *; rw [ih]; ring

private theorem dot_map_map (l : List CompT) (f g : CompT → Rat) :
    dot (l.map f) (l.map g) = rsum (l.map (fun c => f c * g c)) := by
  induction l with
  | nil => simp [dot, rsum]
  | cons c cs ih => simp only [dot, rsum, List.map_cons, List.foldr_cons] at *; rw [ih]

private theorem temp_flatten (p : Bool) (cs : List TBlk) :
    dot (tempWeights p cs) (tempValues cs) =
      rsum (cs.map (fun b => (blockTempTerms b.vol b.comps).1 * weightOf p b.vol b.wparam)) ∧
    rsum (tempWeights p cs) =
      rsum (cs.map (fun b => (blockTempTerms b.vol b.comps).2 * weightOf p b.vol b.wparam)) := by
  induction cs with
  | nil => simp [tempWeights, tempValues, dot, rsum]
  | cons b bs ih =>
    obtain ⟨ih1, ih2⟩ := ih
    simp only [tempWeights, tempValues, List.flatMap_cons] at *
    constructor
    · rw [dot_append _ _ _ _ (by simp), ih1, dot_map_map]
      simp only [rsum, List.map_cons, List.foldr_cons, blockTempTerms]
      congr 1
      have := rsum_map_mul b.comps (fun c => densWithTrace c * c.vf * b.vol * c.temp) (weightOf p b.vol b.wparam)
      simp only [rsum] at this
      rw [mul_comm, ← this]
      congr 1
      apply List.map_congr_left
      intro c _; ring
    · rw [rsum_append, ih2]
      simp only [rsum, List.map_cons, List.foldr_cons, blockTempTerms]
      congr 1
      have := rsum_map_mul b.comps (fun c => densWithTrace c * c.vf * b.vol) (weightOf p b.vol b.wparam)
      simp only [rsum] at this
      rw [mul_comm, ← this]

/-- **the averaged nuclide temperature is the weight-normalised mean over the (eligible member, component) pairs**
with weight = member weight × (number density, or trace where declared with zero) × volume fraction × block volume;
0 when the nuclide is present nowhere. Non-candidates never enter. -/
theorem avgNuclideTemperature_eq_wmean (p : Bool) (bs : List TBlk) :
    avgNuclideTemperature p bs =
      (if rsum (tempWeights p (tcandidates bs)) = 0 then 0
       else wmean (tempWeights p (tcandidates bs)) (tempValues (tcandidates bs))) := by
  obtain ⟨h1, h2⟩ := temp_flatten p (tcandidates bs)
  unfold avgNuclideTemperature wmean
  simp only [← h1, ← h2]

theorem avgNuclideTemperature_uses_only_candidates (p : Bool) (bs : List TBlk) :
    avgNuclideTemperature p bs = avgNuclideTemperature p (tcandidates bs) := by
  have hc : tcandidates (tcandidates bs) = tcandidates bs := by simp [tcandidates, List.filter_filter]
  unfold avgNuclideTemperature
  simp only [hc]

theorem weightOf_pos (p : Bool) (vol wp : Rat) (hv : 0 ≤ vol) (hw : 0 ≤ wp) : 0 < weightOf p vol wp := by
  unfold weightOf
  split <;> split <;> try split
  all_goals positivity

theorem getWeight_eq_weightOf (p : Bool) (b : Blk) : getWeight p b = weightOf p b.vol b.wparam := by
  simp [getWeight, weightOf]

/-- **the averaged nuclide temperature lies between the smallest and the largest component temperature of the
eligible members** (non-negative volumes, weighting values, densities and volume fractions; nuclide present somewhere) -/
theorem avgNuclideTemperature_between (p : Bool) (bs : List TBlk) (lo hi : Rat)
    (hb : ∀ b ∈ tcandidates bs, 0 ≤ b.vol ∧ 0 ≤ b.wparam ∧
      ∀ c ∈ b.comps, 0 ≤ c.n ∧ 0 ≤ c.vf ∧ lo ≤ c.temp ∧ c.temp ≤ hi)
    (hne : rsum (tempWeights p (tcandidates bs)) ≠ 0) :
    lo ≤ avgNuclideTemperature p bs ∧ avgNuclideTemperature p bs ≤ hi := by
  rw [avgNuclideTemperature_eq_wmean, if_neg hne]
  have hw : ∀ w ∈ tempWeights p (tcandidates bs), 0 ≤ w := by
    intro w hwm
    simp only [tempWeights, List.mem_flatMap, List.mem_map] at hwm
    obtain ⟨b, hbm, c, hc, rfl⟩ := hwm
    obtain ⟨hv, hwp, hcs⟩ := hb b hbm
    obtain ⟨hn, hvf, _, _⟩ := hcs c hc
    have hd : 0 ≤ densWithTrace c := by
      cases hdec : c.declared with
      | false => rw [densWithTrace_undeclared c hdec]
      | true => exact le_of_lt (densWithTrace_pos c hdec hn)
    have := le_of_lt (weightOf_pos p b.vol b.wparam hv hwp)
    positivity
  have hsum : ∀ l : List Rat, (∀ w ∈ l, 0 ≤ w) → 0 ≤ rsum l := by
    intro l hl
    induction l with
    | nil => simp [rsum]
    | cons y ys ih =>
      have := ih (fun w hw => hl w (by simp [hw]))
      have hy := hl y (by simp)
      simp only [rsum, List.foldr_cons] at *
      linarith
  apply wmean_between_min_max
  · simp [tempWeights, tempValues, List.length_flatMap]
  · exact hw
  · exact lt_of_le_of_ne (hsum _ hw) (Ne.symm hne)
  · intro x hx
    simp only [tempValues, List.mem_flatMap, List.mem_map] at hx
    obtain ⟨b, hbm, c, hc, rfl⟩ := hx
    obtain ⟨_, _, hcs⟩ := hb b hbm
    exact ⟨(hcs c hc).2.2.1, (hcs c hc).2.2.2⟩

example : avgNuclideTemperature false [⟨true, 2, 0, [⟨true, 1, 1/2, 300⟩, ⟨true, 1, 1/2, 500⟩, ⟨false, 0, 0, 900⟩]⟩,
    ⟨false, 3, 1, [⟨true, 1, 1, 700⟩]⟩] = 400 := by decide +kernel

/-- bounds of a weighted sum when only the entries with NON-ZERO weight are known to lie in [lo, hi] -/
private theorem dot_bounds_support (ws xs : List Rat) (lo hi : Rat) (hl : ws.length = xs.length)
    (hw : ∀ w ∈ ws, 0 ≤ w) (hx : ∀ p ∈ ws.zip xs, p.1 ≠ 0 → lo ≤ p.2 ∧ p.2 ≤ hi) :
    lo * rsum ws ≤ dot ws xs ∧ dot ws xs ≤ hi * rsum ws := by
  induction ws generalizing xs with
  | nil => simp [dot, rsum]
  | cons w ws ih =>
    cases xs with
    | nil => simp at hl
    | cons x xs =>
      have hw0 : 0 ≤ w := hw w (by simp)
      have := ih xs (by simpa using hl) (fun w' h' => hw w' (by simp [h']))
        (fun p hp => hx p (by simp [List.zip_cons_cons, hp]))
      simp only [dot, rsum, List.foldr_cons] at *
      by_cases hz : w = 0
      · subst hz; constructor <;> nlinarith
      · have hx0 := hx (w, x) (by simp [List.zip_cons_cons]) hz
        constructor <;> nlinarith [mul_nonneg hw0 (sub_nonneg.2 hx0.1), mul_nonneg hw0 (sub_nonneg.2 hx0.2)]

/-- **the weighted mean lies between the smallest and largest value among the entries that carry weight** -/
theorem wmean_between_support (ws xs : List Rat) (lo hi : Rat) (hl : ws.length = xs.length)
    (hw : ∀ w ∈ ws, 0 ≤ w) (hpos : 0 < rsum ws) (hx : ∀ p ∈ ws.zip xs, p.1 ≠ 0 → lo ≤ p.2 ∧ p.2 ≤ hi) :
    lo ≤ wmean ws xs ∧ wmean ws xs ≤ hi := by
  obtain ⟨h1, h2⟩ := dot_bounds_support ws xs lo hi hl hw hx
  unfold wmean
  exact ⟨(le_div_iff₀ hpos).2 h1, (div_le_iff₀ hpos).2 h2⟩

private theorem mem_zip_temp (p : Bool) (cs : List TBlk) (q : Rat × Rat)
    (h : q ∈ (tempWeights p cs).zip (tempValues cs)) :
    ∃ b ∈ cs, ∃ c ∈ b.comps, q = (weightOf p b.vol b.wparam * (densWithTrace c * c.vf * b.vol), c.temp) := by
  induction cs with
  | nil => simp [tempWeights, tempValues] at h
  | cons b bs ih =>
    simp only [tempWeights, tempValues, List.flatMap_cons] at h ih
    rw [List.zip_append (by simp)] at h
    rcases List.mem_append.1 h with h | h
    · rw [List.zip_map, List.mem_map] at h
      obtain ⟨⟨c1, c2⟩, hc, rfl⟩ := h
      have hmem := List.of_mem_zip hc
      have heq : c1 = c2 := by
        clear ih h
        have : ∀ (l : List CompT) (a b : CompT), (a, b) ∈ l.zip l → a = b := by
          intro l
          induction l with
          | nil => intro a b h; simp at h
          | cons x xs ihx =>
            intro a b h
            simp only [List.zip_cons_cons, List.mem_cons, Prod.mk.injEq] at h
            rcases h with ⟨rfl, rfl⟩ | h
            · rfl
            · exact ihx a b h
        exact this _ _ _ hc
      subst heq
      exact ⟨b, by simp, c1, hmem.1, rfl⟩
    · obtain ⟨b', hb', c, hc, rfl⟩ := ih h
      exact ⟨b', by simp [hb'], c, hc, rfl⟩

/-- **the averaged nuclide temperature lies between the smallest and the largest temperature of the components that
actually HOLD the nuclide** (declared, with positive volume share, in an eligible member) — components that do not
declare it do not count, whatever their temperature. -/
theorem avgNuclideTemperature_between_present (p : Bool) (bs : List TBlk) (lo hi : Rat)
    (hb : ∀ b ∈ tcandidates bs, 0 ≤ b.vol ∧ 0 ≤ b.wparam ∧ ∀ c ∈ b.comps, 0 ≤ c.n ∧ 0 ≤ c.vf)
    (ht : ∀ b ∈ tcandidates bs, ∀ c ∈ b.comps, c.declared = true → c.vf ≠ 0 → b.vol ≠ 0 → lo ≤ c.temp ∧ c.temp ≤ hi)
    (hne : rsum (tempWeights p (tcandidates bs)) ≠ 0) :
    lo ≤ avgNuclideTemperature p bs ∧ avgNuclideTemperature p bs ≤ hi := by
  rw [avgNuclideTemperature_eq_wmean, if_neg hne]
  have hw : ∀ w ∈ tempWeights p (tcandidates bs), 0 ≤ w := by
    intro w hwm
    simp only [tempWeights, List.mem_flatMap, List.mem_map] at hwm
    obtain ⟨b, hbm, c, hc, rfl⟩ := hwm
    obtain ⟨hv, hwp, hcs⟩ := hb b hbm
    obtain ⟨hn, hvf⟩ := hcs c hc
    have hd : 0 ≤ densWithTrace c := by
      cases hdec : c.declared with
      | false => rw [densWithTrace_undeclared c hdec]
      | true => exact le_of_lt (densWithTrace_pos c hdec hn)
    have := le_of_lt (weightOf_pos p b.vol b.wparam hv hwp)
    positivity
  have hsum : ∀ l : List Rat, (∀ w ∈ l, 0 ≤ w) → 0 ≤ rsum l := by
    intro l hl
    induction l with
    | nil => simp [rsum]
    | cons y ys ih =>
      have := ih (fun w hw => hl w (by simp [hw]))
      have hy := hl y (by simp)
      simp only [rsum, List.foldr_cons] at *
      linarith
  apply wmean_between_support
  · simp [tempWeights, tempValues, List.length_flatMap]
  · exact hw
  · exact lt_of_le_of_ne (hsum _ hw) (Ne.symm hne)
  · intro q hq hq0
    obtain ⟨b, hbm, c, hc, rfl⟩ := mem_zip_temp p _ q hq
    simp only [ne_eq, mul_eq_zero, not_or] at hq0
    apply ht b hbm c hc
    · cases hdec : c.declared with
      | true => rfl
      | false => exact absurd (densWithTrace_undeclared c hdec) hq0.2.1.1
    · exact hq0.2.1.2
    · exact hq0.2.2

/-! ## area-weighted component average (1-D cylinder / slab collections) -/

/-- with positive total weight the value is the mean weighted by member weight × component area -/
theorem areaAverage_eq_wmean (bw ar xs : List Rat) (h : 0 < rsum (zipMul bw ar)) :
    areaAverage bw ar xs = wmean (zipMul bw ar) xs := by
  simp [areaAverage, h, wmean]

/-- the documented fall-back: zero densities (not an error) when the total weight is not positive -/
theorem areaAverage_zero (bw ar xs : List Rat) (h : ¬ 0 < rsum (zipMul bw ar)) : areaAverage bw ar xs = 0 := by
  simp [areaAverage, h]

/-- **convexity of the 1-D component average** -/
theorem areaAverage_between (bw ar xs : List Rat) (lo hi : Rat) (h1 : bw.length = ar.length)
    (h2 : bw.length = xs.length) (hw : ∀ w ∈ bw, 0 ≤ w) (ha : ∀ a ∈ ar, 0 ≤ a)
    (hpos : 0 < rsum (zipMul bw ar)) (hx : ∀ x ∈ xs, lo ≤ x ∧ x ≤ hi) :
    lo ≤ areaAverage bw ar xs ∧ areaAverage bw ar xs ≤ hi := by
  rw [areaAverage_eq_wmean bw ar xs hpos]
  exact wmean_between_min_max _ _ lo hi (by rw [zipMul_length bw ar h1, h2]) (zipMul_nonneg bw ar hw ha) hpos hx

example : areaAverage [1, 2] [3, 4] [10, 20] = 190 / 11 ∧ areaAverage [1, 2] [0, 0] [10, 20] = 0 := by decide +kernel


/-! ## new XS ids of modified representative blocks -/

/-- invariant of the type map: new types are admissible, unallocated, pairwise distinct; orig types pairwise distinct -/
def TmOk (allocated : List (List Nat)) (tm : List (Nat × Nat)) : Prop :=
  (tm.map (·.2)).Nodup ∧ (tm.map (·.1)).Nodup ∧ ∀ p ∈ tm, admissibleChar p.2 = true ∧ [p.2] ∉ allocated

private theorem dictGet_none {α β} [BEq α] [LawfulBEq α] (d : List (α × β)) (k : α) (h : dictGet d k = none) :
    k ∉ d.map (·.1) := by
  simp only [dictGet, Option.map_eq_none_iff, List.find?_eq_none] at h
  intro hm
  obtain ⟨p, hp, rfl⟩ := List.mem_map.1 hm
  exact h p hp (by simp)

private theorem dictGet_some {α β} [BEq α] [LawfulBEq α] (d : List (α × β)) (k : α) (v : β) (h : dictGet d k = some v) :
    (k, v) ∈ d := by
  simp only [dictGet, Option.map_eq_some_iff] at h
  obtain ⟨p, hp, rfl⟩ := h
  have hm := List.mem_of_find?_eq_some hp
  have hk := List.find?_some hp
  simp only [beq_iff_eq] at hk
  subst hk
  exact hm

private theorem modifiedIdsLoop_tm (allocated reps : List (List Nat)) (bs : List MBlk) (tm : List (Nat × Nat))
    (acc : List (List Nat × List Nat)) (tm' : List (Nat × Nat)) (acc' : List (List Nat × List Nat))
    (h : modifiedIdsLoop allocated reps bs tm acc = some (tm', acc')) (hok : TmOk allocated tm) :
    TmOk allocated tm' := by
  induction bs generalizing tm acc with
  | nil => simp only [modifiedIdsLoop, Option.some.injEq, Prod.mk.injEq] at h; rw [← h.1]; exact hok
  | cons b bs ih =>
    simp only [modifiedIdsLoop] at h
    split at h
    · exact ih tm acc h hok
    · split at h
      · exact ih tm _ h hok
      · rename_i hnone
        split at h
        · rename_i t ts hnext
          refine ih _ _ h ?_
          obtain ⟨_, _, hspec⟩ := nextAvailable_spec 1 _ _ hnext
          obtain ⟨hadm, hnot⟩ := hspec t (by simp)
          have hnot' : [t] ∉ allocated ∧ t ∉ tm.map (·.2) := by
            constructor
            · intro hm; exact hnot (List.mem_append_left _ hm)
            · intro hm
              apply hnot
              apply List.mem_append_right
              obtain ⟨p, hp, rfl⟩ := List.mem_map.1 hm
              exact List.mem_map.2 ⟨p, hp, rfl⟩
          obtain ⟨h1, h2, h3⟩ := hok
          refine ⟨?_, ?_, ?_⟩
          · rw [List.map_append, List.nodup_append]
            refine ⟨h1, by simp, ?_⟩
            intro a ha b' hb'
            simp only [List.map_cons, List.map_nil, List.mem_singleton] at hb'
            subst hb'
            intro he; subst he; exact hnot'.2 ha
          · rw [List.map_append, List.nodup_append]
            refine ⟨h2, by simp, ?_⟩
            intro a ha b' hb'
            simp only [List.map_cons, List.map_nil, List.mem_singleton] at hb'
            subst hb'
            intro he; subst he; exact dictGet_none tm _ hnone ha
          · intro p hp
            rcases List.mem_append.1 hp with hp | hp
            · exact h3 p hp
            · simp only [List.mem_singleton] at hp; subst hp; exact ⟨hadm, hnot'.1⟩
        · cases h

/-- **the XS types handed to modified representative blocks are admissible, not in use on any block, and distinct
for distinct original types** — so the modified blocks form NEW groups and two original groups never merge. -/
theorem modifiedIds_types (allocated reps : List (List Nat)) (bs : List MBlk) (tm : List (Nat × Nat))
    (acc : List (List Nat × List Nat)) (h : modifiedIds allocated reps bs = some (tm, acc)) :
    (tm.map (·.2)).Nodup ∧ (tm.map (·.1)).Nodup ∧ ∀ p ∈ tm, admissibleChar p.2 = true ∧ [p.2] ∉ allocated :=
  modifiedIdsLoop_tm allocated reps bs [] [] tm acc h ⟨by simp, by simp, by simp⟩

private theorem mem_dictSet {α β} [BEq α] (d : List (α × β)) (k : α) (v : β) (p : α × β) (h : p ∈ dictSet d k v) :
    p ∈ d ∨ p = (k, v) := by
  unfold dictSet at h
  split at h
  · obtain ⟨q, hq, rfl⟩ := List.mem_map.1 h
    split
    · exact Or.inr rfl
    · exact Or.inl hq
  · rcases List.mem_append.1 h with h | h
    · exact Or.inl h
    · exact Or.inr (by simpa using h)

/-- every entry of origXSIDsFromNew pairs an original id (x, e) with the new id (t, e) where t is the type mapped to x -/
def AccOk (tm : List (Nat × Nat)) (acc : List (List Nat × List Nat)) : Prop :=
  ∀ p ∈ acc, ∃ x e t, p.2 = [x, e] ∧ p.1 = [t, e] ∧ (x, t) ∈ tm

private theorem modifiedIdsLoop_acc (allocated reps : List (List Nat)) (bs : List MBlk) (tm : List (Nat × Nat))
    (acc : List (List Nat × List Nat)) (tm' : List (Nat × Nat)) (acc' : List (List Nat × List Nat))
    (h : modifiedIdsLoop allocated reps bs tm acc = some (tm', acc')) (hok : AccOk tm acc) :
    AccOk tm' acc' := by
  induction bs generalizing tm acc with
  | nil =>
    simp only [modifiedIdsLoop, Option.some.injEq, Prod.mk.injEq] at h
    rw [← h.1, ← h.2]; exact hok
  | cons b bs ih =>
    simp only [modifiedIdsLoop] at h
    split at h
    · exact ih tm acc h hok
    · split at h
      · rename_i t hget
        refine ih tm _ h ?_
        intro p hp
        rcases mem_dictSet _ _ _ _ hp with hp | rfl
        · exact hok p hp
        · exact ⟨b.xs, b.env, t, rfl, rfl, dictGet_some tm _ _ hget⟩
      · split at h
        · rename_i t ts hnext
          refine ih _ _ h ?_
          intro p hp
          rcases mem_dictSet _ _ _ _ hp with hp | rfl
          · obtain ⟨x, e, t', h1, h2, h3⟩ := hok p hp
            exact ⟨x, e, t', h1, h2, List.mem_append_left _ h3⟩
          · exact ⟨b.xs, b.env, t, rfl, rfl, by simp⟩
        · cases h

private theorem pair_inj {l : List (Nat × Nat)} (h1 : (l.map (·.1)).Nodup) (h2 : (l.map (·.2)).Nodup)
    {p q : Nat × Nat} (hp : p ∈ l) (hq : q ∈ l) : (p.1 = q.1 ↔ p.2 = q.2) := by
  induction l with
  | nil => cases hp
  | cons a as ih =>
    simp only [List.map_cons, List.nodup_cons, List.mem_map, not_exists, not_and] at h1 h2
    rcases List.mem_cons.1 hp with rfl | hp' <;> rcases List.mem_cons.1 hq with rfl | hq'
    · simp
    · constructor
      · intro he; exact absurd he.symm (h1.1 q hq')
      · intro he; exact absurd he.symm (h2.1 q hq')
    · constructor
      · intro he; exact absurd he (h1.1 p hp')
      · intro he; exact absurd he (h2.1 p hp')
    · exact ih h1.2 h2.2 hp' hq'

/-- **new id ↔ original id is one-to-one**: two entries of the map `origXSIDsFromNew` have the same new XS id exactly
when they have the same original XS id; the environment letter is kept, the type letter is the mapped one. -/
theorem modifiedIds_bijective (allocated reps : List (List Nat)) (bs : List MBlk) (tm : List (Nat × Nat))
    (acc : List (List Nat × List Nat)) (h : modifiedIds allocated reps bs = some (tm, acc)) :
    ∀ p ∈ acc, ∀ q ∈ acc, (p.1 = q.1 ↔ p.2 = q.2) := by
  obtain ⟨n2, n1, _⟩ := modifiedIds_types allocated reps bs tm acc h
  have hacc := modifiedIdsLoop_acc allocated reps bs [] [] tm acc h (by intro p hp; cases hp)
  intro p hp q hq
  obtain ⟨x, e, t, hp2, hp1, hpt⟩ := hacc p hp
  obtain ⟨x', e', t', hq2, hq1, hqt⟩ := hacc q hq
  have hinj := pair_inj n1 n2 hpt hqt
  simp only at hinj
  rw [hp1, hq1, hp2, hq2]
  constructor
  · intro he
    simp only [List.cons.injEq, and_true] at he
    rw [hinj.2 he.1, he.2]
  · intro he
    simp only [List.cons.injEq, and_true] at he
    rw [hinj.1 he.1, he.2]

example : modifiedIds [[65], [66], [67]] [[65, 65], [65, 66], [66, 65]] [⟨65, 65, true⟩, ⟨66, 65, true⟩, ⟨65, 66, false⟩, ⟨67, 65, true⟩]
    = some ([(65, 68), (66, 69)], [([68, 65], [65, 65]), ([69, 65], [66, 65]), ([68, 66], [65, 66])]) := by decide +kernel



/-! ## by-component averaging is chosen for similar members -/

private theorem zipAllEq_iff_of_length (a b : List Nat) (h : a.length = b.length) : zipAllEq a b = true ↔ a = b := by
  induction a generalizing b with
  | nil => cases b <;> simp_all [zipAllEq]
  | cons x xs ih =>
    cases b with
    | nil => simp at h
    | cons y ys =>
      simp only [zipAllEq, Bool.and_eq_true, beq_iff_eq, List.cons.injEq]
      rw [ih ys (by simpa using h)]

/-- **when all eligible members have the same number of components, by-component averaging is chosen exactly when every
member has the same component flags in the same (sorted) order** -/
theorem blockSimilarity_iff (fls : List (List Nat)) (ref : List Nat) (hr : fls.getLast? = some ref)
    (hl : ∀ fl ∈ fls, fl.length = ref.length) :
    blockSimilarity fls = some true ↔ ∀ fl ∈ fls, fl = ref := by
  simp only [blockSimilarity, hr, Option.some.injEq, List.all_eq_true]
  constructor
  · intro h fl hfl; exact (zipAllEq_iff_of_length fl ref (hl fl hfl)).1 (h fl hfl)
  · intro h fl hfl; exact (zipAllEq_iff_of_length fl ref (hl fl hfl)).2 (h fl hfl)

/-- witness of the hole left by `zip` (observation, candidate fix in notes/candidate-fixes-C20): a member that only lacks
the LAST component of the others still counts as similar -/
example : blockSimilarity [[1, 2, 3], [1, 2]] = some true ∧ blockSimilarity [[1, 2], [1, 2, 3]] = some true ∧
    blockSimilarity [[1, 3], [1, 2, 3]] = some false := by decide


private theorem zipAllEq_pos (a b : List Nat) (h : zipAllEq a b = true) (i : Nat) (x y : Nat)
    (hx : a[i]? = some x) (hy : b[i]? = some y) : x = y := by
  induction a generalizing b i with
  | nil => simp at hx
  | cons p ps ih =>
    cases b with
    | nil => simp at hy
    | cons q qs =>
      simp only [zipAllEq, Bool.and_eq_true, beq_iff_eq] at h
      cases i with
      | zero => simp at hx hy; rw [← hx, ← hy]; exact h.1
      | succ j => exact ih qs h.2 j (by simpa using hx) (by simpa using hy)

/-- **like with like**: whenever by-component averaging is chosen, at every sorted position that a member and the
reference member both have, the two components carry the same flags — whatever the component counts. Members holding the
same kinds in a different radial order are therefore never averaged by component. -/
theorem blockSimilarity_positions (fls : List (List Nat)) (ref : List Nat) (hr : fls.getLast? = some ref)
    (h : blockSimilarity fls = some true) :
    ∀ fl ∈ fls, ∀ (i x y : Nat), fl[i]? = some x → ref[i]? = some y → x = y := by
  simp only [blockSimilarity, hr, Option.some.injEq, List.all_eq_true] at h
  intro fl hfl i x y hx hy
  exact zipAllEq_pos fl ref (h fl hfl) i x y hx hy

/-- a permuted radial order (solid slug + bond around it vs annular slug + bond in the centre) is NOT similar -/
example : blockSimilarity [[1, 2, 3], [2, 1, 3]] = some false := by decide

end ArmiVerif.XsGroup
