/-
Source-translation tie (DESIGN.md "Source-translation tie"): umbrella of the modules that relate the
definitions translated from the CURRENT armi source text (`Gen/Src.lean`, tools/py2lean.py) to the
hand-written model definitions (`Eq*`: one module per function, so that one function leaving the
subset does not take the others with it) and restate the property theorems directly over the
translated definitions (`Cor*`).  harness/srctie.py builds these per property on every run.
-/
import ArmiVerif.Props.SrcTie.Tactic
import ArmiVerif.Props.SrcTie.EqNumPositionsInRing
import ArmiVerif.Props.SrcTie.EqGetPositionsInRing
import ArmiVerif.Props.SrcTie.EqTotalPositionsUpToRing
import ArmiVerif.Props.SrcTie.EqIndicesToRingPos
import ArmiVerif.Props.SrcTie.EqGetRingPos
import ArmiVerif.Props.SrcTie.EqIndicesAndEdge
import ArmiVerif.Props.SrcTie.EqGetIndicesFromRingAndPos
import ArmiVerif.Props.SrcTie.EqNeighbours
import ArmiVerif.Props.SrcTie.EqOverlapsWhichSymmetryLine
import ArmiVerif.Props.SrcTie.EqSymmetricIdenticalsThird
import ArmiVerif.Props.SrcTie.EqIsInFirstThird
import ArmiVerif.Props.SrcTie.EqTrzRingPos
import ArmiVerif.Props.SrcTie.EqTrzIndices
import ArmiVerif.Props.SrcTie.EqCartPositionsInRing
import ArmiVerif.Props.SrcTie.NodesLemmas
import ArmiVerif.Props.SrcTie.EqNodesPerCycle
import ArmiVerif.Props.SrcTie.EqCumulativeNode
import ArmiVerif.Props.SrcTie.EqPreviousTimeNode
import ArmiVerif.Props.SrcTie.EqCycleNodeFromCumulativeNode
import ArmiVerif.Props.SrcTie.EqCycleNodeFromCumulativeStep
import ArmiVerif.Props.SrcTie.EqMcnpId
import ArmiVerif.Props.SrcTie.EqAaazzzsId
import ArmiVerif.Props.SrcTie.XsLemmas
import ArmiVerif.Props.SrcTie.EqXsNumberFromLabel
import ArmiVerif.Props.SrcTie.EqXsLabelFromNumber
import ArmiVerif.Props.SrcTie.EqBlockBandwidth
import ArmiVerif.Props.SrcTie.EqH5GroupName
import ArmiVerif.Props.SrcTie.EqRotateIndex
import ArmiVerif.Props.SrcTie.EqCartRingPos
import ArmiVerif.Props.SrcTie.CorHexRingPos
import ArmiVerif.Props.SrcTie.CorHexTotal
import ArmiVerif.Props.SrcTie.CorHexNeighbours
import ArmiVerif.Props.SrcTie.CorTrz
import ArmiVerif.Props.SrcTie.CorCartRing
import ArmiVerif.Props.SrcTie.CorHexSym
import ArmiVerif.Props.SrcTie.CorNodes
import ArmiVerif.Props.SrcTie.CorMcnpId
import ArmiVerif.Props.SrcTie.CorNodesInverse
import ArmiVerif.Props.SrcTie.CorXsLabels
import ArmiVerif.Props.SrcTie.CorBlockBandwidth
import ArmiVerif.Props.SrcTie.CorH5GroupName
import ArmiVerif.Props.SrcTie.CorHexRotate
import ArmiVerif.Props.SrcTie.CorCartRingPos
