import ArmiVerif.Props.C09
import ArmiVerif.Props.SrcTie.EqBlockBandwidth

/-! C09 block bandwidths restated over the definition translated from the current source text of cccc.py. -/
namespace ArmiVerif.SrcTie
open ArmiVerif.Cccc

/-- **as written now**: for `nblok ≥ 1`, `nintj ≥ 1` block `m` (0-based; the code is called with `m + 1`) starts at column
`m·x` and ends at `min(nintj, (m+1)·x) − 1`, `x = (nintj−1)/nblok + 1` -/
theorem src_bandwidth_nat (nintj nblok m : Nat) (hb : 0 < nblok) (hn : 0 < nintj) :
    ArmiVerif.Gen.Src.Cccc.getBlockBandwidth ((m : Int) + 1) nintj nblok =
      some ((bandLow nintj nblok m : Int), ((min nintj ((m + 1) * bandX nintj nblok) : Nat) : Int) - 1) := by
  rw [getBlockBandwidth_eq]
  exact getBlockBandwidth_nat nintj nblok m hb hn

/-- **as written now**: the column ranges of the `nblok` blocks, each of the width the code computes (`jU − jL + 1`),
laid end to end are exactly the columns `0 … nintj−1`: no column is lost or written twice -/
theorem src_bandwidth_partition (nintj nblok : Nat) (hb : 0 < nblok) (hn : 0 < nintj) :
    (List.range nblok).flatMap (fun (m : Nat) =>
      match ArmiVerif.Gen.Src.Cccc.getBlockBandwidth ((m : Int) + 1) nintj nblok with
      | some (jL, jU) => List.range' jL.toNat (jU - jL + 1).toNat
      | none => []) = List.range nintj := by
  rw [← bandwidth_partition nintj nblok hb]
  congr 1
  funext m
  rw [src_bandwidth_nat nintj nblok m hb hn]
  simp only [bandLow, bandWidth, Int.toNat_natCast]
  congr 1
  omega

/-- **as written now**: the block-width expression of the PWDINT / RTFLUX / ATFLUX / RZFLUX record schemas is
`jU − jL + 1` of what the code's `getBlockBandwidth(b + 1, nintj, nblok)` returns -/
theorem src_blockWidth_eval (b nintj nblok : E) (env : Env) (jL jU : Int)
    (hbw : ArmiVerif.Gen.Src.Cccc.getBlockBandwidth (b.eval env + 1) (nintj.eval env) (nblok.eval env) = some (jL, jU)) :
    (Schema.blockWidth b nintj nblok).eval env = jU - jL + 1 := by
  rw [getBlockBandwidth_eq] at hbw
  exact blockWidth_eval b nintj nblok env jL jU hbw

end ArmiVerif.SrcTie
