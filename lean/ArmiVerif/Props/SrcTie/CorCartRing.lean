import ArmiVerif.Props.SrcTie.EqCartPositionsInRing
open ArmiVerif ArmiVerif.Gen.Src

namespace ArmiVerif.SrcTie

/-- **as written now**: the Cartesian ring sizes add up to the square they tile:
(2r−1)² cells in rings 1..r with a centre cell, (2r)² without -/
theorem src_cart_ring_sizes (through : Bool) (r : Int) (hr : 1 ≤ r) :
    Grid.cartTotal through (r + 1)
      = Grid.cartTotal through r + Cartesian.CartesianGrid.getPositionsInRing (r + 1) through := by
  rw [cartGetPositionsInRing_eq]
  unfold Grid.cartTotal Grid.cartPositionsInRing
  have h : r + 1 ≠ 1 := by omega
  cases through <;> simp [h] <;> grind

end ArmiVerif.SrcTie
