import ArmiVerif.Props.C07Grid
import ArmiVerif.Props.SrcTie.EqCartRingPos
import ArmiVerif.Props.SrcTie.EqCartPositionsInRing

/-! C07 Cartesian ring / position numbering restated over the definitions translated from the current source text of
cartesian.py (`getRingPos` with its 0.5 offsets carried exactly, `getPositionsInRing`). -/
namespace ArmiVerif.SrcTie
open ArmiVerif.Grid

/-- **as written now**: the ring is the Chebyshev distance from the centre + 1 (measured between cell centres and the
grid centre; `hdist` for a grid without a centre cell) -/
theorem src_cart_ring (t : Bool) (i j : Int) :
    (ArmiVerif.Gen.Src.Cartesian.CartesianGrid.getRingPos (i, j) t).1 =
      if t then max (iabs i) (iabs j) + 1 else max (hdist i) (hdist j) + 1 := by
  rw [cartGetRingPos_eq]; exact cart_ring_eq t i j

/-- **as written now**: the position lies in `1 … getPositionsInRing(ring)` -/
theorem src_cart_pos_range (t : Bool) (i j : Int) :
    1 ≤ (ArmiVerif.Gen.Src.Cartesian.CartesianGrid.getRingPos (i, j) t).2 ∧
    (ArmiVerif.Gen.Src.Cartesian.CartesianGrid.getRingPos (i, j) t).2 ≤
      ArmiVerif.Gen.Src.Cartesian.CartesianGrid.getPositionsInRing
        (ArmiVerif.Gen.Src.Cartesian.CartesianGrid.getRingPos (i, j) t).1 t := by
  rw [cartGetRingPos_eq, cartGetPositionsInRing_eq]; exact cart_pos_range t i j

/-- **as written now**: distinct cells get distinct (ring, position) -/
theorem src_cart_ringpos_injective (t : Bool) (i j i' j' : Int)
    (h : ArmiVerif.Gen.Src.Cartesian.CartesianGrid.getRingPos (i, j) t
        = ArmiVerif.Gen.Src.Cartesian.CartesianGrid.getRingPos (i', j') t) : i = i' ∧ j = j' := by
  rw [cartGetRingPos_eq, cartGetRingPos_eq] at h; exact cart_ringpos_injective t i j i' j' h

/-- **as written now**: every (ring ≥ 1, 1 ≤ pos ≤ getPositionsInRing ring) is the numbering of a cell, so ring r holds
exactly `getPositionsInRing(r)` cells numbered contiguously -/
theorem src_cart_ringpos_onto (t : Bool) (r p : Int) (hr : 1 ≤ r) (hp1 : 1 ≤ p)
    (hp2 : p ≤ ArmiVerif.Gen.Src.Cartesian.CartesianGrid.getPositionsInRing r t) :
    ∃ c : Int × Int, ArmiVerif.Gen.Src.Cartesian.CartesianGrid.getRingPos c t = (r, p) := by
  rw [cartGetPositionsInRing_eq] at hp2
  exact ⟨cartFromRingPos t r p, by rw [cartGetRingPos_eq]; exact cart_ringpos_right_inv t r p hr hp1 hp2⟩

end ArmiVerif.SrcTie
