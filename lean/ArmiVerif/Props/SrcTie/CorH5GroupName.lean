import ArmiVerif.Props.C06
import ArmiVerif.Props.SrcTie.EqH5GroupName

/-! C04 / C06 statepoint group names restated over the definition translated from the current source text of
database.py.  Domain: cycle and node below 100 (two digits, the width `{:0>2}` guarantees); any label. -/
namespace ArmiVerif.SrcTie
open ArmiVerif.SnapStore

theorem castCodes_injective (l1 l2 : List Nat) (h : castCodes l1 = castCodes l2) : l1 = l2 := by
  unfold castCodes at h
  induction l1 generalizing l2 with
  | nil => cases l2 <;> simp_all
  | cons a t ih =>
    cases l2 with
    | nil => simp at h
    | cons b u =>
      simp only [List.map_cons, List.cons.injEq] at h
      rw [ih u h.2]
      congr 1
      omega

/-- **as written now**: distinct (cycle, node, label) triples below 100 get distinct HDF5 group names -/
theorem src_groupName_injective (c n c' n' : Nat) (l l' : List Nat)
    (hc : c < 100) (hn : n < 100) (hc' : c' < 100) (hn' : n' < 100)
    (h : ArmiVerif.Gen.Src.Database.getH5GroupName (c : Int) (n : Int) (castCodes l)
        = ArmiVerif.Gen.Src.Database.getH5GroupName (c' : Int) (n' : Int) (castCodes l')) :
    c = c' ∧ n = n' ∧ l = l' := by
  rw [getH5GroupName_eq c n l hc hn, getH5GroupName_eq c' n' l' hc' hn'] at h
  exact name_injective c n c' n' l l' hc hn hc' hn' (castCodes_injective _ _ h)

/-- **as written now**: the (cycle, node) is read back from the name by the `cXXnYY` pattern -/
theorem src_groupName_parse (c n : Nat) (l : List Nat) (hc : c < 100) (hn : n < 100) :
    ∃ s : List Nat, ArmiVerif.Gen.Src.Database.getH5GroupName (c : Int) (n : Int) (castCodes l) = castCodes s ∧
      parseName s = some (c, n) :=
  ⟨name ⟨c, n, l⟩, getH5GroupName_eq c n l hc hn, parse_name c n l hc hn⟩

end ArmiVerif.SrcTie
