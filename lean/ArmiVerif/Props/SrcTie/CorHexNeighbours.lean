import ArmiVerif.Props.C07
import ArmiVerif.Props.SrcTie.EqNeighbours
open ArmiVerif ArmiVerif.Gen.Src

namespace ArmiVerif.SrcTie

/-- **as written now**: every listed neighbour of every cell lies exactly one pitch away, in both
orientations (squared distance in the integer coefficient basis), and keeps the axial index -/
theorem src_neighbours_unit (cu : Bool) (i j k : Int) :
    ∀ t ∈ Hexagonal.HexGrid.getNeighboringCellIndices i j k,
      Hex.sq4 cu ((Hex.coef cu t.1 t.2.1).1 - (Hex.coef cu i j).1,
                  (Hex.coef cu t.1 t.2.1).2 - (Hex.coef cu i j).2) = 4 ∧ t.2.2 = k := by
  intro t ht
  obtain ⟨hm, hk⟩ := getNeighboringCellIndices_eq i j k
  refine ⟨?_, hk t ht⟩
  have hmem : (t.1, t.2.1) ∈ Hex.neighbours i j := by
    rw [← hm]
    exact List.mem_map_of_mem ht
  exact Hex.neighbours_unit cu i j (t.1, t.2.1) hmem

/-- **as written now**: six neighbours, in the model's counter-clockwise order -/
theorem src_neighbours_order (i j k : Int) :
    (Hexagonal.HexGrid.getNeighboringCellIndices i j k).map (fun t => (t.1, t.2.1))
      = [(i + 1, j), (i, j + 1), (i - 1, j + 1), (i - 1, j), (i, j - 1), (i + 1, j - 1)] :=
  (getNeighboringCellIndices_eq i j k).1

end ArmiVerif.SrcTie
