import ArmiVerif.Props.C07
import ArmiVerif.Props.SrcTie.EqIndicesToRingPos
import ArmiVerif.Props.SrcTie.EqGetIndicesFromRingAndPos
import ArmiVerif.Props.SrcTie.EqNumPositionsInRing
open ArmiVerif ArmiVerif.Gen.Src

/-!
C07 clauses restated DIRECTLY over the definitions translated from the current source text
(`Gen/Src.lean`): what the kernel checks here is a statement about what the code says now.
-/
namespace ArmiVerif.SrcTie

/-- **as the code is written now**: `getIndicesFromRingAndPos(*indicesToRingPos(i, j)) == (i, j)`
and does not raise, for every cell of ℤ² -/
theorem src_ringpos_left_inv (i j : Int) :
    Hexagonal.HexGrid.getIndicesFromRingAndPos (Hexagonal.HexGrid.indicesToRingPos i j).1
      (Hexagonal.HexGrid.indicesToRingPos i j).2 = some (i, j) := by
  rw [getIndicesFromRingAndPos_eq, indicesToRingPos_eq]
  exact Hex.ringpos_left_inv i j

/-- **as written now**: the ring `indicesToRingPos` reports is the hex distance from the centre + 1 -/
theorem src_ring_eq_hexdist (i j : Int) :
    (Hexagonal.HexGrid.indicesToRingPos i j).1
      = max (max (i.natAbs : Int) j.natAbs) (i + j).natAbs + 1 := by
  rw [indicesToRingPos_eq]
  exact Hex.ring_eq_hexdist i j

/-- **as written now**: the position lies in `1 … numPositionsInRing(ring)` -/
theorem src_pos_range (i j : Int) :
    1 ≤ (Hexagonal.HexGrid.indicesToRingPos i j).2 ∧
    (Hexagonal.HexGrid.indicesToRingPos i j).2
      ≤ Hexagon.numPositionsInRing (Hexagonal.HexGrid.indicesToRingPos i j).1 := by
  rw [indicesToRingPos_eq, numPositionsInRing_eq]
  exact Hex.pos_range i j

/-- **as written now**: every (ring, pos) of the valid range is accepted and maps back to itself, so
the two functions are mutually inverse bijections ℤ² ↔ {(r, p) | r ≥ 1, 1 ≤ p ≤ numPositionsInRing r} -/
theorem src_ringpos_right_inv (r p : Int) (hr : 1 ≤ r) (hp1 : 1 ≤ p)
    (hp2 : p ≤ Hexagon.numPositionsInRing r) :
    ∃ c, Hexagonal.HexGrid.getIndicesFromRingAndPos r p = some c ∧
      Hexagonal.HexGrid.indicesToRingPos c.1 c.2 = (r, p) := by
  rw [numPositionsInRing_eq] at hp2
  obtain ⟨c, h1, h2⟩ := Hex.ringpos_right_inv r p hr hp1 hp2
  exact ⟨c, by rw [getIndicesFromRingAndPos_eq]; exact h1, by rw [indicesToRingPos_eq]; exact h2⟩

end ArmiVerif.SrcTie
