import ArmiVerif.Props.C08
import ArmiVerif.Props.SrcTie.EqRotateIndex

/-! C08 index rotation restated over the definition translated from the current source text of hexagonal.py
(`consistent = true`: the locator's grid is this grid or none). -/
namespace ArmiVerif.SrcTie
open ArmiVerif.Hex

/-- the (i, j) part of what the code returns -/
def rotIJ (k : Int) (c : Int × Int × Int) : Option (Int × Int) :=
  (ArmiVerif.Gen.Src.Hexagonal.HexGrid.rotateIndex k true c).map (fun t => (t.1, t.2.1))

theorem rotIJ_eq (k : Int) (c : Int × Int × Int) : rotIJ k c = some (rotateIndex k (c.1, c.2.1)) := by
  unfold rotIJ
  rw [rotateIndex_eq]
  simp

/-- **as written now**: rotating never raises for a consistent locator, keeps the axial index, and six steps are
the identity -/
theorem src_rot_six (c : Int × Int × Int) :
    ArmiVerif.Gen.Src.Hexagonal.HexGrid.rotateIndex 6 true c = some c := by
  rw [rotateIndex_eq]
  simp only [if_true, rot_six_id]

/-- **as written now**: rotations compose additively, for all integers -/
theorem src_rot_add (k l : Int) (i j z : Int) :
    ArmiVerif.Gen.Src.Hexagonal.HexGrid.rotateIndex (k + l) true (i, j, z)
      = (ArmiVerif.Gen.Src.Hexagonal.HexGrid.rotateIndex l true (i, j, z)).bind
          (ArmiVerif.Gen.Src.Hexagonal.HexGrid.rotateIndex k true) := by
  simp only [rotateIndex_eq, if_true, Option.bind_some, rot_add k l (i, j)]

/-- **as written now**: rotation preserves the ring (hex distance from the centre) -/
theorem src_rot_preserves_ring (k : Int) (i j z : Int) :
    ∃ t, ArmiVerif.Gen.Src.Hexagonal.HexGrid.rotateIndex k true (i, j, z) = some t ∧
      (toRingPos t.1 t.2.1).1 = (toRingPos i j).1 ∧ t.2.2 = z := by
  refine ⟨((rotateIndex k (i, j)).1, (rotateIndex k (i, j)).2, z), ?_, ?_, rfl⟩
  · rw [rotateIndex_eq]; simp only [if_true]
  · exact rot_preserves_ring k (i, j)

/-- **as written now**: `k` index steps turn the cell centre by `k`·60° counter-clockwise (both orientations; exact
identity on the integer coefficient vectors, n = k mod 6) -/
theorem src_rot_geom (cu : Bool) (k : Int) (i j z : Int) :
    ∃ t, ArmiVerif.Gen.Src.Hexagonal.HexGrid.rotateIndex k true (i, j, z) = some t ∧
      ((2 : Int) ^ (k % 6).toNat * (coef cu t.1 t.2.1).1, (2 : Int) ^ (k % 6).toNat * (coef cu t.1 t.2.1).2)
        = iter (R60x2 cu) (k % 6).toNat (coef cu i j) := by
  refine ⟨((rotateIndex k (i, j)).1, (rotateIndex k (i, j)).2, z), ?_, ?_⟩
  · rw [rotateIndex_eq]; simp only [if_true]
  · exact rot_geom_iter cu k (i, j)

end ArmiVerif.SrcTie
