import ArmiVerif.Props.C08
import ArmiVerif.Props.SrcTie.EqSymmetricIdenticalsThird
import ArmiVerif.Props.SrcTie.EqOverlapsWhichSymmetryLine
import ArmiVerif.Props.SrcTie.EqIsInFirstThird
open ArmiVerif ArmiVerif.Gen.Src

/-! C08 clauses restated over the definitions translated from the current source text. -/
namespace ArmiVerif.SrcTie

/-- **as written now**: the third-core equivalents of a cell are its images under 120° and 240°
(two and four 60° steps of the index rotation), distinct from it and from each other -/
theorem src_third_equivalents (i j k : Int) (h : (i, j) ≠ (0, 0)) :
    Hexagonal.HexGrid._getSymmetricIdenticalsThird (i, j, k)
      = [Hex.rotateIndex 2 (i, j), Hex.rotateIndex 4 (i, j)] ∧
    Hex.rotateIndex 2 (i, j) ≠ (i, j) ∧ Hex.rotateIndex 4 (i, j) ≠ (i, j) ∧
    Hex.rotateIndex 2 (i, j) ≠ Hex.rotateIndex 4 (i, j) := by
  rw [getSymmetricIdenticalsThird_eq]
  exact ⟨Hex.third_equivalents_are_120_images (i, j) h, Hex.third_orbit_distinct (i, j) h⟩

/-- **as written now**: the centre has no equivalents -/
theorem src_third_centre (k : Int) : Hexagonal.HexGrid._getSymmetricIdenticalsThird (0, 0, k) = [] := by
  rw [getSymmetricIdenticalsThird_eq]; rfl

/-- **as written now**: `isInFirstThird` is the angular sector 0° ≤ θ < 120° (≤ with the top edge) -/
theorem src_inFirstThird_iff_sector (top : Bool) (i j k : Int) :
    Hexagonal.HexGrid.isInFirstThird top (i, j, k) = true ↔
      (i = 0 ∧ j = 0) ∨ (0 ≤ i + 2 * j ∧ (0 < 2 * i + j ∨ (top = true ∧ 2 * i + j = 0))) := by
  rw [isInFirstThird_eq]
  exact Hex.inFirstThird_iff_sector top (i, j)

/-- **as written now**: off the edge lines exactly one member of each 3-orbit {cell} ∪ equivalents is
in the first third (with or without the top edge) -/
theorem src_third_orbit_partition (i j k : Int) (h0 : (i, j) ≠ (0, 0))
    (hl : Hex.onEdgeLine (i, j) = false) (top : Bool) :
    (((i, j) :: Hexagonal.HexGrid._getSymmetricIdenticalsThird (i, j, k)).filter
      (fun c => Hexagonal.HexGrid.isInFirstThird top (c.1, c.2, k))).length = 1 := by
  rw [getSymmetricIdenticalsThird_eq]
  have hf : (fun c : Int × Int => Hexagonal.HexGrid.isInFirstThird top (c.1, c.2, k))
      = Hex.inFirstThird top := by
    funext c; rw [isInFirstThird_eq]
  rw [hf]
  exact Hex.third_orbit_partition (i, j) h0 hl top

/-- **as written now**: the symmetry-line class reported for a cell is the geometric one (flats up):
1 ⇔ centre on the 0° ray, 2 ⇔ 60° ray, 3 ⇔ 120° ray, 4 ⇔ the centre cell, `None` otherwise -/
theorem src_line_class (c : Int × Int) :
    (Hexagonal.HexGrid.overlapsWhichSymmetryLine c = some 1 ↔
        (Hex.coef false c.1 c.2).2 = 0 ∧ 0 < (Hex.coef false c.1 c.2).1) ∧
    (Hexagonal.HexGrid.overlapsWhichSymmetryLine c = some 2 ↔
        (Hex.coef false c.1 c.2).2 = 3 * (Hex.coef false c.1 c.2).1 ∧ 0 < (Hex.coef false c.1 c.2).1) ∧
    (Hexagonal.HexGrid.overlapsWhichSymmetryLine c = some 3 ↔
        (Hex.coef false c.1 c.2).2 = -3 * (Hex.coef false c.1 c.2).1 ∧ (Hex.coef false c.1 c.2).1 < 0) ∧
    (Hexagonal.HexGrid.overlapsWhichSymmetryLine c = some 4 ↔ c = (0, 0)) := by
  obtain ⟨h1, h2, h3, h4, h5⟩ := Hex.line_class_iff_geometry c
  rw [overlapsWhichSymmetryLine_eq]
  rw [← h1, ← h2, ← h3, ← h4]
  rcases h5 with h | h | h | h | h <;> simp [h]

end ArmiVerif.SrcTie
