import ArmiVerif.Props.C07
import ArmiVerif.Props.SrcTie.EqTotalPositionsUpToRing
import ArmiVerif.Props.SrcTie.EqNumPositionsInRing
import ArmiVerif.Props.SrcTie.EqGetPositionsInRing
open ArmiVerif ArmiVerif.Gen.Src

namespace ArmiVerif.SrcTie

/-- **as written now**: `totalPositionsUpToRing` is the running sum of `numPositionsInRing`
(contiguous numbering across rings), for every ring ≥ 1 -/
theorem src_total_succ (r : Nat) (hr : 1 ≤ r) :
    Hexagon.totalPositionsUpToRing ((r : Int) + 1)
      = Hexagon.totalPositionsUpToRing r + Hexagon.numPositionsInRing ((r : Int) + 1) := by
  have h := Hex.totalUpTo_succ r hr
  rw [numPositionsInRing_eq, totalPositionsUpToRing_eq r]
  have e : ((r : Int) + 1) = ((r + 1 : Nat) : Int) := by push_cast; rfl
  rw [e, totalPositionsUpToRing_eq (r + 1)]
  push_cast at h ⊢
  exact h

/-- **as written now**: one cell in ring 1 -/
theorem src_total_one : Hexagon.totalPositionsUpToRing 1 = 1 ∧ Hexagon.numPositionsInRing 1 = 1 := by
  decide

/-- **as written now**: ring r > 1 holds 6(r−1) cells; `HexGrid.getPositionsInRing` agrees with the utility -/
theorem src_ring_size (r : Int) (hr : 1 < r) :
    Hexagon.numPositionsInRing r = 6 * (r - 1) ∧
    Hexagonal.HexGrid.getPositionsInRing r = Hexagon.numPositionsInRing r := by
  rw [getPositionsInRing_eq, numPositionsInRing_eq]
  unfold Hex.positionsInRing
  constructor
  · split <;> omega
  · rfl

end ArmiVerif.SrcTie
