import ArmiVerif.Props.C19
import ArmiVerif.Props.SrcTie.EqMcnpId
open ArmiVerif ArmiVerif.Gen.Src

/-! C19 identifier clauses restated over the definitions translated from the current source text. -/
namespace ArmiVerif.SrcTie

/-- the decimal reading of the string `"{z:d}{a:03d}"` when the second field has at most three digits -/
def mcnpNumber (p : Int × Int) : Int := p.1 * 1000 + p.2

/-- **as written now**: for mass numbers below 400 and states 0..3 the second field of the MCNP id has at most
three digits (so `{a:03d}` is exactly three characters), the id read as a number is the model's `mcnpId`, its
leading digits are the atomic number -/
theorem src_mcnp_encodes (r : Nuclide.Row) (ha : r.a < 400) (hs : r.s ≤ 3) :
    0 ≤ (NuclideBases.NuclideBase.getMcnpId (r.z : Int) (r.a : Int) (r.s : Int)).2 ∧
    (NuclideBases.NuclideBase.getMcnpId (r.z : Int) (r.a : Int) (r.s : Int)).2 < 1000 ∧
    mcnpNumber (NuclideBases.NuclideBase.getMcnpId (r.z : Int) (r.a : Int) (r.s : Int)) = (Nuclide.mcnpId r : Nat) ∧
    mcnpNumber (NuclideBases.NuclideBase.getMcnpId (r.z : Int) (r.a : Int) (r.s : Int)) / 1000 = r.z := by
  rw [getMcnpId_eq]
  have h : Nuclide.mcnpA r.z r.a r.s < 1000 := by
    unfold Nuclide.mcnpA; repeat' split
    all_goals omega
  unfold mcnpNumber Nuclide.mcnpId
  generalize Nuclide.mcnpA r.z r.a r.s = m at h ⊢
  refine ⟨?_, ?_, ?_, ?_⟩
  · show (0 : Int) ≤ (m : Int); omega
  · show (m : Int) < 1000; omega
  · show (r.z : Int) * 1000 + (m : Int) = ((r.z * 1000 + m : Nat) : Int); omega
  · show ((r.z : Int) * 1000 + (m : Int)) / 1000 = (r.z : Int); omega

/-- **as written now**: MCNP ids are injective (including the Am-242 ground/metastable swap) for nuclides whose
second field has three digits and whose mass numbers are less than 100 apart within an element -/
theorem src_mcnp_injective (r1 r2 : Nuclide.Row)
    (h1 : Nuclide.mcnpA r1.z r1.a r1.s < 1000) (h2 : Nuclide.mcnpA r2.z r2.a r2.s < 1000)
    (hn : r1.z = r2.z → r1.a < r2.a + 100 ∧ r2.a < r1.a + 100)
    (h : NuclideBases.NuclideBase.getMcnpId (r1.z : Int) (r1.a : Int) (r1.s : Int)
        = NuclideBases.NuclideBase.getMcnpId (r2.z : Int) (r2.a : Int) (r2.s : Int)) :
    r1.z = r2.z ∧ r1.a = r2.a ∧ r1.s = r2.s := by
  rw [getMcnpId_eq, getMcnpId_eq] at h
  simp only [Prod.mk.injEq] at h
  apply Nuclide.mcnp_injective_modulo_am242 r1 r2 h1 h2 hn
  unfold Nuclide.mcnpId
  omega

end ArmiVerif.SrcTie
