import ArmiVerif.Props.C15
import ArmiVerif.Props.SrcTie.EqCumulativeNode
import ArmiVerif.Props.SrcTie.EqPreviousTimeNode
open ArmiVerif ArmiVerif.Gen.Src

/-! C15 node arithmetic restated over the definitions translated from the current source text. -/
namespace ArmiVerif.SrcTie

/-- **as written now**: for every node of a cycle history other than (0, 0), `getPreviousTimeNode` does not
raise and returns the node whose cumulative number (`getCumulativeNodeNum`) is exactly one less -/
theorem src_prev_node_spec (bs : List Nat) (c n : Nat) (hc : c < bs.length) (hn : n ≤ bs[c])
    (h0 : ¬ (c = 0 ∧ n = 0)) :
    ∃ p : Nat × Nat, Utils.getPreviousTimeNode (c : Int) (n : Int) (toInts bs) = some ((p.1 : Int), (p.2 : Int)) ∧
      Utils.getCumulativeNodeNum (p.1 : Int) (p.2 : Int) (toInts bs) + 1
        = Utils.getCumulativeNodeNum (c : Int) (n : Int) (toInts bs) ∧ p.1 < bs.length := by
  obtain ⟨p, h1, h2, h3, _⟩ := Schedule.prev_node_spec bs c n hc hn h0
  refine ⟨p, ?_, ?_, h3⟩
  · rw [getPreviousTimeNode_eq, h1]; rfl
  · rw [getCumulativeNodeNum_eq, getCumulativeNodeNum_eq]
    exact_mod_cast h2

/-- **as written now**: cumulative node numbers count the nodes in visiting order: within a cycle the
next node has the next number, and the first node of the next cycle follows the last node of a cycle -/
theorem src_cum_node_steps (bs : List Nat) (c n : Nat) (hc : c < bs.length) :
    Utils.getCumulativeNodeNum (c : Int) ((n : Int) + 1) (toInts bs)
      = Utils.getCumulativeNodeNum (c : Int) (n : Int) (toInts bs) + 1 ∧
    Utils.getCumulativeNodeNum ((c : Int) + 1) 0 (toInts bs)
      = Utils.getCumulativeNodeNum (c : Int) (bs[c] : Nat) (toInts bs) + 1 := by
  have e1 : ((n : Int) + 1) = ((n + 1 : Nat) : Int) := by push_cast; rfl
  have e2 : ((c : Int) + 1) = ((c + 1 : Nat) : Int) := by push_cast; rfl
  have e3 : (0 : Int) = ((0 : Nat) : Int) := rfl
  rw [e1, e2, e3]
  simp only [getCumulativeNodeNum_eq]
  unfold Schedule.cumNode Schedule.nodesPerCycle
  constructor
  · push_cast; omega
  · have : (List.map (fun x => x + 1) bs).take (c + 1)
        = (List.map (fun x => x + 1) bs).take c ++ [bs[c] + 1] := by
      rw [List.take_add_one]
      simp [List.getElem?_map, List.getElem?_eq_getElem hc]
    rw [this, List.sum_append]
    simp
    omega

end ArmiVerif.SrcTie
