import ArmiVerif.Props.C15
import ArmiVerif.Props.SrcTie.EqCumulativeNode
import ArmiVerif.Props.SrcTie.EqCycleNodeFromCumulativeNode
import ArmiVerif.Props.SrcTie.EqCycleNodeFromCumulativeStep
open ArmiVerif ArmiVerif.Gen.Src

/-! C15 "the conversions are inverse to each other", restated over the definitions translated from the current
source text (including the two loop functions). -/
namespace ArmiVerif.SrcTie

/-- **as written now**: (cycle, node) → cumulative node → (cycle, node), for every node of every cycle history -/
theorem src_cum_node_inverse (bs : List Nat) (c n : Nat) (hc : c < bs.length) (hn : n ≤ bs[c]) :
    Utils.getCycleNodeFromCumulativeNode (Utils.getCumulativeNodeNum (c : Int) (n : Int) (toInts bs)) (toInts bs)
      = some ((c : Int), (n : Int)) := by
  rw [getCumulativeNodeNum_eq, getCycleNodeFromCumulativeNode_eq, Schedule.cum_node_inverse bs c n hc hn]
  rfl

/-- **as written now**: cumulative node → (cycle, node) → cumulative node, for EVERY cumulative number for which the
function returns (beyond the last node the code extends the last cycle and the round trip still holds) -/
theorem src_cum_node_inverse_right (bs : List Nat) (k c n : Nat)
    (h : Utils.getCycleNodeFromCumulativeNode (k : Int) (toInts bs) = some ((c : Int), (n : Int))) :
    Utils.getCumulativeNodeNum (c : Int) (n : Int) (toInts bs) = (k : Int) ∧ c < bs.length := by
  rw [getCycleNodeFromCumulativeNode_eq] at h
  cases hm : Schedule.nodeOfCum bs k with
  | none => rw [hm] at h; simp at h
  | some p =>
    rw [hm] at h
    simp only [Option.map_some, Option.some.injEq, Prod.mk.injEq] at h
    have hp : p = (c, n) := by apply Prod.ext <;> simp <;> omega
    rw [hp] at hm
    obtain ⟨h1, h2⟩ := Schedule.cum_node_inverse_right bs k c n hm
    refine ⟨?_, h2⟩
    rw [getCumulativeNodeNum_eq, h1]

/-- **as written now**: the 1-based cumulative number of the time step that starts at node `n < burnSteps[c]` of
cycle `c` is `Σ burnSteps[:c] + n + 1`, and `getCycleNodeFromCumulativeStep` inverts it -/
theorem src_cum_step_inverse (bs : List Nat) (c n : Nat) (hc : c < bs.length) (hn : n < bs[c]) :
    Utils.getCycleNodeFromCumulativeStep (((bs.take c).sum + n + 1 : Nat) : Int) (toInts bs)
      = some ((c : Int), (n : Int)) := by
  rw [getCycleNodeFromCumulativeStep_eq, Schedule.cum_step_inverse bs c n hc hn]
  rfl

end ArmiVerif.SrcTie
