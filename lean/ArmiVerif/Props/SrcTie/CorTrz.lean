import ArmiVerif.Props.SrcTie.EqTrzRingPos
import ArmiVerif.Props.SrcTie.EqTrzIndices
open ArmiVerif ArmiVerif.Gen.Src

namespace ArmiVerif.SrcTie

/-- **as written now**: theta-R-Z ring/pos ↔ indices are mutually inverse for all integers -/
theorem src_trz_roundtrip (c : Int × Int × Int) (ring pos : Int) :
    Thetarz.ThetaRZGrid.getIndicesFromRingAndPos (Thetarz.ThetaRZGrid.getRingPos c).1
        (Thetarz.ThetaRZGrid.getRingPos c).2 = (c.1, c.2.1) ∧
    Thetarz.ThetaRZGrid.getRingPos
        ((Thetarz.ThetaRZGrid.getIndicesFromRingAndPos ring pos).1,
         (Thetarz.ThetaRZGrid.getIndicesFromRingAndPos ring pos).2, c.2.2) = (ring, pos) := by
  simp only [trzGetRingPos_eq, trzGetIndicesFromRingAndPos_eq, Grid.trzRingPos, Grid.trzFromRingPos]
  constructor <;> (apply Prod.ext <;> simp)

end ArmiVerif.SrcTie
