import ArmiVerif.Props.C20
import ArmiVerif.Props.SrcTie.EqXsNumberFromLabel
import ArmiVerif.Props.SrcTie.EqXsLabelFromNumber
open ArmiVerif ArmiVerif.Gen.Src

/-! C20 "every admissible type label converts to its numeric identifier and back without collision", restated over
the definitions translated from the current source text of crossSectionGroupManager.py. -/
namespace ArmiVerif.SrcTie

theorem castL_injective (l1 l2 : List Nat) (h : castL l1 = castL l2) : l1 = l2 := by
  unfold castL at h
  exact List.map_injective_iff.mpr (fun a b hab => by exact_mod_cast hab) h

/-- **as written now**: every admissible label (one or two characters A–Z a–z) is accepted by
`getXSTypeNumberFromLabel`, and `getXSTypeLabelFromNumber` of that number is the label again -/
theorem src_label_number_roundtrip (l : List Nat) (h : XsGroup.admissible l = true) :
    ∃ n : Nat, CrossSectionGroupManager.getXSTypeNumberFromLabel (castL l) = some (n : Int) ∧
      CrossSectionGroupManager.getXSTypeLabelFromNumber (n : Int) = some (castL l) := by
  obtain ⟨n, h1, h2⟩ := XsGroup.label_number_defined l h
  refine ⟨n, ?_, ?_⟩
  · rw [getXSTypeNumberFromLabel_eq l h, h1]; rfl
  · rw [getXSTypeLabelFromNumber_eq l h n h1, h2]; rfl

/-- **as written now**: no two admissible labels get the same number -/
theorem src_label_number_injective (l1 l2 : List Nat) (h1 : XsGroup.admissible l1 = true)
    (h2 : XsGroup.admissible l2 = true)
    (h : CrossSectionGroupManager.getXSTypeNumberFromLabel (castL l1)
        = CrossSectionGroupManager.getXSTypeNumberFromLabel (castL l2)) : l1 = l2 := by
  rw [getXSTypeNumberFromLabel_eq l1 h1, getXSTypeNumberFromLabel_eq l2 h2] at h
  apply XsGroup.label_number_injective l1 l2 h1 h2
  cases ha : XsGroup.labelToNumber l1 <;> cases hb : XsGroup.labelToNumber l2 <;> rw [ha, hb] at h <;> simp at h ⊢
  omega

end ArmiVerif.SrcTie
