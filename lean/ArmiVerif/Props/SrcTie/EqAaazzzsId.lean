import ArmiVerif.Gen.Src
import ArmiVerif.Props.SrcTie.Tactic
open ArmiVerif ArmiVerif.Gen.Src ArmiVerif.PyInt

namespace ArmiVerif.SrcTie

/-- `NuclideBase.getAAAZZZSId` as written now formats exactly `(a, z, state)` as `"{a}{z:>03d}{state}"` -/
theorem getAAAZZZSId_eq (z a s : Int) :
    NuclideBases.NuclideBase.getAAAZZZSId z a s = (a, z, s) := by
  unfold NuclideBases.NuclideBase.getAAAZZZSId
  src_tie

end ArmiVerif.SrcTie
