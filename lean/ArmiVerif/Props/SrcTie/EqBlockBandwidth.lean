import ArmiVerif.Gen.Src
import ArmiVerif.Props.SrcTie.Tactic
import ArmiVerif.Model.Cccc
open ArmiVerif.PyInt
set_option linter.unusedSimpArgs false

namespace ArmiVerif.SrcTie

/-- `cccc.getBlockBandwidth` as written now = `Cccc.getBlockBandwidth` (ZeroDivisionError = `none`), all integers -/
theorem getBlockBandwidth_eq (m nintj nblok : Int) :
    ArmiVerif.Gen.Src.Cccc.getBlockBandwidth m nintj nblok = ArmiVerif.Cccc.getBlockBandwidth m nintj nblok := by
  unfold ArmiVerif.Gen.Src.Cccc.getBlockBandwidth ArmiVerif.Cccc.getBlockBandwidth
  src_tie

end ArmiVerif.SrcTie
