import ArmiVerif.Gen.Src
import ArmiVerif.Props.SrcTie.Tactic
import ArmiVerif.Model.Grid
open ArmiVerif ArmiVerif.Gen.Src ArmiVerif.PyInt

namespace ArmiVerif.SrcTie

/-- `CartesianGrid.getPositionsInRing` as written now = `Grid.cartPositionsInRing` -/
theorem cartGetPositionsInRing_eq (ring : Int) (through : Bool) :
    Cartesian.CartesianGrid.getPositionsInRing ring through = Grid.cartPositionsInRing through ring := by
  unfold Cartesian.CartesianGrid.getPositionsInRing Grid.cartPositionsInRing
  cases through <;> src_tie

end ArmiVerif.SrcTie
