import ArmiVerif.Gen.Src
import ArmiVerif.Props.SrcTie.Tactic
import ArmiVerif.Model.Grid
open ArmiVerif.PyInt
set_option linter.unusedSimpArgs false

namespace ArmiVerif.SrcTie

theorem truncHalf_double (x : Int) : ArmiVerif.Grid.truncHalf (2 * x) = x := by
  unfold ArmiVerif.Grid.truncHalf; split <;> omega

/-- `CartesianGrid.getRingPos` as written now (its 0.5 offsets carried exactly as doubled integers) =
`Grid.cartRingPos`, for every cell, with and without a centre cell -/
theorem cartGetRingPos_eq (i j : Int) (through : Bool) :
    ArmiVerif.Gen.Src.Cartesian.CartesianGrid.getRingPos (i, j) through = ArmiVerif.Grid.cartRingPos through i j := by
  have e1 : pyTruncHalf = ArmiVerif.Grid.truncHalf := rfl
  have e2 : pyAbs = ArmiVerif.Grid.iabs := rfl
  unfold ArmiVerif.Gen.Src.Cartesian.CartesianGrid.getRingPos ArmiVerif.Grid.cartRingPos ArmiVerif.Grid.cdbl
  rw [e1, e2]
  cases through
  · simp only [Bool.false_eq_true, decide_false, not_false_eq_true, if_true, if_false]
    generalize max (ArmiVerif.Grid.iabs (ArmiVerif.Grid.truncHalf (2 * i + 1)))
      (ArmiVerif.Grid.iabs (ArmiVerif.Grid.truncHalf (2 * j + 1))) = r
    (repeat' split) <;> first | rfl | (simp only [Prod.mk.injEq]; constructor <;> (congr 1; omega)) | omega
  · simp only [decide_true, not_true_eq_false, if_true, if_false, truncHalf_double]
    generalize max (ArmiVerif.Grid.iabs i) (ArmiVerif.Grid.iabs j) = r
    (repeat' split) <;> (try omega) <;>
      (simp only [Prod.mk.injEq, true_and] <;> unfold ArmiVerif.Grid.truncHalf <;> split <;> omega)

end ArmiVerif.SrcTie
