import ArmiVerif.Gen.Src
import ArmiVerif.Props.SrcTie.Tactic
import ArmiVerif.Props.SrcTie.NodesLemmas
import ArmiVerif.Model.Schedule
open ArmiVerif ArmiVerif.Gen.Src ArmiVerif.PyInt
set_option linter.unusedSimpArgs false

namespace ArmiVerif.SrcTie

/-- `getCumulativeNodeNum` as written now = `Schedule.cumNode`, for every cycle history, cycle and node -/
theorem getCumulativeNodeNum_eq (bs : List Nat) (c n : Nat) :
    Utils.getCumulativeNodeNum (c : Int) (n : Int) (toInts bs) = ((Schedule.cumNode bs c n : Nat) : Int) := by
  unfold Utils.getCumulativeNodeNum Schedule.cumNode Schedule.nodesPerCycle
  (try unfold Utils.getNodesPerCycle)
  (try simp only [])
  nodes_norm
  (try push_cast)
  first | omega | grind

end ArmiVerif.SrcTie
