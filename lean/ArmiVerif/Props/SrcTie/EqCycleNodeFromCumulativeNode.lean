import ArmiVerif.Gen.Src
import ArmiVerif.Props.SrcTie.Tactic
import ArmiVerif.Props.SrcTie.NodesLemmas
import ArmiVerif.Model.Schedule
import ArmiVerif.Props.SrcTie.EqNodesPerCycle
open ArmiVerif ArmiVerif.Gen.Src ArmiVerif.PyInt
set_option linter.unusedSimpArgs false

namespace ArmiVerif.SrcTie

/-!
`getCycleNodeFromCumulativeNode` as written now (a `for i in range(len(...))` loop with an early return, translated
to structural recursion on the number of iterations left) = `Schedule.nodeOfCum` (recursion over the list), for every
cycle history and every cumulative node number.  `nodeLoop_eq` is the loop invariant: after the cycles `pre` the index
is `pre.length` and the running total `pre.sum ≤ k`.
-/
/-- what `getCycleNodeFromCumulativeNode` does with the loop's result -/
def nodeFinish (L : List Int) (k : Int) : Option ((Int × Int) ⊕ Int) → Option (Int × Int)
  | none => none
  | some (Sum.inl r) => some r
  | some (Sum.inr c) =>
    match pyIdx L ((Int.ofNat L.length) - 1) with
    | none => none
    | some x => some ((Int.ofNat L.length) - 1, k - (c - x))

theorem nodeLoop_eq (k : Nat) (rest pre : List Nat) (x : Nat) (hacc : pre.sum ≤ k) :
    nodeFinish (toInts (pre ++ x :: rest)) (k : Int)
      (Utils.getCycleNodeFromCumulativeNode.loop1 (toInts (pre ++ x :: rest)) (k : Int) (rest.length + 1)
        (pre.length : Int) (pre.sum : Int))
    = (Schedule.nodeOfCumLoop k pre.length pre.sum (x :: rest)).map (fun p => ((p.1 : Int), (p.2 : Int))) := by
  induction rest generalizing pre x with
  | nil =>
    unfold Utils.getCycleNodeFromCumulativeNode.loop1 Schedule.nodeOfCumLoop
    simp only [pyIdx_toInts_append]
    by_cases h : k < pre.sum + x
    · have h' : (k : Int) < (pre.sum : Int) + (x : Int) := by omega
      simp only [h, h', if_true, nodeFinish, Option.map_some]
      congr 1; apply Prod.ext <;> simp <;> omega
    · have h' : ¬ ((k : Int) < (pre.sum : Int) + (x : Int)) := by omega
      simp only [h, h', if_false, List.length_nil, Nat.zero_add]
      unfold Utils.getCycleNodeFromCumulativeNode.loop1
      have hl : (Int.ofNat (toInts (pre ++ [x])).length) - 1 = (pre.length : Int) := by
        simp [length_toInts]
      simp only [nodeFinish, hl, pyIdx_toInts_append, Option.map_some]
      congr 1; apply Prod.ext <;> simp <;> omega
  | cons y rest ih =>
    unfold Utils.getCycleNodeFromCumulativeNode.loop1 Schedule.nodeOfCumLoop
    simp only [pyIdx_toInts_append]
    by_cases h : k < pre.sum + x
    · have h' : (k : Int) < (pre.sum : Int) + (x : Int) := by omega
      simp only [h, h', if_true, nodeFinish, Option.map_some]
      congr 1; apply Prod.ext <;> simp <;> omega
    · have h' : ¬ ((k : Int) < (pre.sum : Int) + (x : Int)) := by omega
      simp only [h, h', if_false]
      have e : pre ++ x :: y :: rest = (pre ++ [x]) ++ y :: rest := by simp
      have hs : (pre ++ [x]).sum = pre.sum + x := by simp
      have hlen : (pre ++ [x]).length = pre.length + 1 := by simp
      have := ih (pre ++ [x]) y (by omega)
      rw [hs, hlen] at this
      rw [e]
      have c1 : ((pre.length : Int) + 1) = ((pre.length + 1 : Nat) : Int) := by omega
      have c2 : ((pre.sum : Int) + (x : Int)) = ((pre.sum + x : Nat) : Int) := by omega
      rw [c1, c2]
      exact this

theorem getCycleNodeFromCumulativeNode_eq (bs : List Nat) (k : Nat) :
    Utils.getCycleNodeFromCumulativeNode (k : Int) (toInts bs)
      = (Schedule.nodeOfCum bs k).map (fun p => ((p.1 : Int), (p.2 : Int))) := by
  unfold Utils.getCycleNodeFromCumulativeNode Schedule.nodeOfCum
  simp only [getNodesPerCycle_eq]
  have hk : ¬ ((k : Int) < 0) := by omega
  simp only [hk, if_false]
  cases hL : Schedule.nodesPerCycle bs with
  | nil =>
    simp [toInts, Utils.getCycleNodeFromCumulativeNode.loop1, pyIdx, Schedule.nodeOfCumLoop]
  | cons x rest =>
    have := nodeLoop_eq k rest [] x (by simp)
    simp only [List.nil_append, List.length_nil, List.sum_nil, Int.natCast_zero] at this
    rw [← this]
    have hlen : Int.toNat (Int.ofNat (toInts (x :: rest)).length - 0) = rest.length + 1 := by
      simp [length_toInts]
    rw [hlen]
    generalize Utils.getCycleNodeFromCumulativeNode.loop1 (toInts (x :: rest)) (k : Int) (rest.length + 1) 0 0 = res
    unfold nodeFinish
    rcases res with _ | (r | c) <;> first | rfl | (simp; done) | (split <;> simp_all)

end ArmiVerif.SrcTie
