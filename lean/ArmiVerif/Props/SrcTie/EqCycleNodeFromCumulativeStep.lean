import ArmiVerif.Gen.Src
import ArmiVerif.Props.SrcTie.Tactic
import ArmiVerif.Props.SrcTie.NodesLemmas
import ArmiVerif.Model.Schedule
open ArmiVerif ArmiVerif.Gen.Src ArmiVerif.PyInt
set_option linter.unusedSimpArgs false

namespace ArmiVerif.SrcTie

/-!
`getCycleNodeFromCumulativeStep` as written now = `Schedule.stepOfCum`, for every cycle history and step number
(loop invariant `stepLoop_eq`: running total `pre.sum < t`).
-/
/-- what `getCycleNodeFromCumulativeStep` does with the loop's result -/
def stepFinish (L : List Int) (t : Int) : Option ((Int × Int) ⊕ Int) → Option (Int × Int)
  | none => none
  | some (Sum.inl r) => some r
  | some (Sum.inr c) =>
    match pyIdx L ((Int.ofNat L.length) - 1) with
    | none => none
    | some x => some ((Int.ofNat L.length) - 1, t - (c - x) - 1)

theorem stepLoop_eq (t : Nat) (rest pre : List Nat) (x : Nat) (hacc : pre.sum < t) :
    stepFinish (toInts (pre ++ x :: rest)) (t : Int)
      (Utils.getCycleNodeFromCumulativeStep.loop1 (toInts (pre ++ x :: rest)) (t : Int) (rest.length + 1)
        (pre.length : Int) (pre.sum : Int))
    = (Schedule.stepOfCumLoop t pre.length pre.sum (x :: rest)).map (fun p => ((p.1 : Int), (p.2 : Int))) := by
  induction rest generalizing pre x with
  | nil =>
    unfold Utils.getCycleNodeFromCumulativeStep.loop1 Schedule.stepOfCumLoop
    simp only [pyIdx_toInts_append]
    by_cases h : t ≤ pre.sum + x
    · have h' : (t : Int) ≤ (pre.sum : Int) + (x : Int) := by omega
      simp only [h, h', if_true, stepFinish, Option.map_some]
      congr 1; apply Prod.ext <;> simp <;> omega
    · have h' : ¬ ((t : Int) ≤ (pre.sum : Int) + (x : Int)) := by omega
      simp only [h, h', if_false, List.length_nil, Nat.zero_add]
      unfold Utils.getCycleNodeFromCumulativeStep.loop1
      have hl : (Int.ofNat (toInts (pre ++ [x])).length) - 1 = (pre.length : Int) := by
        simp [length_toInts]
      simp only [stepFinish, hl, pyIdx_toInts_append, Option.map_some]
      congr 1; apply Prod.ext <;> simp <;> omega
  | cons y rest ih =>
    unfold Utils.getCycleNodeFromCumulativeStep.loop1 Schedule.stepOfCumLoop
    simp only [pyIdx_toInts_append]
    by_cases h : t ≤ pre.sum + x
    · have h' : (t : Int) ≤ (pre.sum : Int) + (x : Int) := by omega
      simp only [h, h', if_true, stepFinish, Option.map_some]
      congr 1; apply Prod.ext <;> simp <;> omega
    · have h' : ¬ ((t : Int) ≤ (pre.sum : Int) + (x : Int)) := by omega
      simp only [h, h', if_false]
      have e : pre ++ x :: y :: rest = (pre ++ [x]) ++ y :: rest := by simp
      have hs : (pre ++ [x]).sum = pre.sum + x := by simp
      have hlen : (pre ++ [x]).length = pre.length + 1 := by simp
      have := ih (pre ++ [x]) y (by omega)
      rw [hs, hlen] at this
      rw [e]
      have c1 : ((pre.length : Int) + 1) = ((pre.length + 1 : Nat) : Int) := by omega
      have c2 : ((pre.sum : Int) + (x : Int)) = ((pre.sum + x : Nat) : Int) := by omega
      rw [c1, c2]
      exact this

theorem getCycleNodeFromCumulativeStep_eq (bs : List Nat) (t : Nat) :
    Utils.getCycleNodeFromCumulativeStep (t : Int) (toInts bs)
      = (Schedule.stepOfCum bs t).map (fun p => ((p.1 : Int), (p.2 : Int))) := by
  unfold Utils.getCycleNodeFromCumulativeStep Schedule.stepOfCum
  by_cases ht : t < 1
  · have ht' : (t : Int) < 1 := by omega
    simp [ht, ht']
  · have ht' : ¬ ((t : Int) < 1) := by omega
    simp only [ht, ht', if_false]
    cases bs with
    | nil =>
      simp [toInts, Utils.getCycleNodeFromCumulativeStep.loop1, pyIdx, Schedule.stepOfCumLoop]
    | cons x rest =>
      have := stepLoop_eq t rest [] x (by simp; omega)
      simp only [List.nil_append, List.length_nil, List.sum_nil, Int.natCast_zero] at this
      rw [← this]
      have hlen : Int.toNat (Int.ofNat (toInts (x :: rest)).length - 0) = rest.length + 1 := by
        simp [length_toInts]
      rw [hlen]
      generalize Utils.getCycleNodeFromCumulativeStep.loop1 (toInts (x :: rest)) (t : Int) (rest.length + 1) 0 0 = res
      unfold stepFinish
      rcases res with _ | (r | c) <;> first | rfl | (simp; done) | (split <;> simp_all)

end ArmiVerif.SrcTie
