import ArmiVerif.Gen.Src
import ArmiVerif.Props.SrcTie.Tactic
import ArmiVerif.Model.Hex
open ArmiVerif ArmiVerif.Gen.Src ArmiVerif.PyInt

namespace ArmiVerif.SrcTie

/-- `HexGrid.getIndicesFromRingAndPos` as written now = `Hex.fromRingPos` (raise = `none`) -/
theorem getIndicesFromRingAndPos_eq (ring pos : Int) :
    Hexagonal.HexGrid.getIndicesFromRingAndPos ring pos = Hex.fromRingPos ring pos := by
  unfold Hexagonal.HexGrid.getIndicesFromRingAndPos Hexagonal.HexGrid._indicesAndEdgeFromRingAndPos
    Hex.fromRingPos Hex.ijOfEdge
  src_tie

end ArmiVerif.SrcTie
