import ArmiVerif.Gen.Src
import ArmiVerif.Props.SrcTie.Tactic
import ArmiVerif.Model.Hex
open ArmiVerif ArmiVerif.Gen.Src ArmiVerif.PyInt

namespace ArmiVerif.SrcTie

/-- `HexGrid.getPositionsInRing` as written now = `Hex.positionsInRing` -/
theorem getPositionsInRing_eq (ring : Int) :
    Hexagonal.HexGrid.getPositionsInRing ring = Hex.positionsInRing ring := by
  unfold Hexagonal.HexGrid.getPositionsInRing Hexagon.numPositionsInRing Hex.positionsInRing
  src_tie

end ArmiVerif.SrcTie
