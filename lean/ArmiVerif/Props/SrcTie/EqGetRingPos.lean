import ArmiVerif.Gen.Src
import ArmiVerif.Props.SrcTie.Tactic
import ArmiVerif.Model.Hex
open ArmiVerif ArmiVerif.Gen.Src ArmiVerif.PyInt

namespace ArmiVerif.SrcTie

/-- `HexGrid.getRingPos(indices)` as written now = `Hex.toRingPos` of the first two indices -/
theorem getRingPos_eq (c : Int × Int × Int) :
    Hexagonal.HexGrid.getRingPos c = Hex.toRingPos c.1 c.2.1 := by
  unfold Hexagonal.HexGrid.getRingPos Hexagonal.HexGrid.indicesToRingPos Hex.toRingPos Hex.ero
  src_tie

end ArmiVerif.SrcTie
