import ArmiVerif.Gen.Src
import ArmiVerif.Model.SnapStore
open ArmiVerif.PyInt
set_option linter.unusedSimpArgs false

namespace ArmiVerif.SrcTie

/-- code points as Python sees them -/
def castCodes (l : List Nat) : List Int := l.map (fun (c : Nat) => (c : Int))

theorem fill2' : ((List.range 100).all fun c => decide
    (pyFmtFill 2 (c : Int) = [((48 + c / 10 : Nat) : Int), ((48 + c % 10 : Nat) : Int)])) = true := by decide +kernel

theorem fill2 (c : Nat) (h : c < 100) :
    pyFmtFill 2 (c : Int) = castCodes (ArmiVerif.SnapStore.pad2 c) := by
  have := List.all_eq_true.1 fill2' c (by simpa using h)
  simp only [decide_eq_true_eq] at this
  rw [this]
  simp [ArmiVerif.SnapStore.pad2, h, castCodes]

theorem fmtD2' : ((List.range 100).all fun c => decide
    (pyFmtD 2 (c : Int) = [((48 + c / 10 : Nat) : Int), ((48 + c % 10 : Nat) : Int)])) = true := by decide +kernel

theorem fmtD2 (c : Nat) (h : c < 100) :
    pyFmtD 2 (c : Int) = castCodes (ArmiVerif.SnapStore.pad2 c) := by
  have := List.all_eq_true.1 fmtD2' c (by simpa using h)
  simp only [decide_eq_true_eq] at this
  rw [this]
  simp [ArmiVerif.SnapStore.pad2, h, castCodes]

/-- `database.getH5GroupName` as written now = `SnapStore.name` (code points of `cXXnYY<label>`), for every cycle and
node below 100 (the width the `{:0>2}` format guarantees) and every label -/
theorem getH5GroupName_eq (c n : Nat) (l : List Nat) (hc : c < 100) (hn : n < 100) :
    ArmiVerif.Gen.Src.Database.getH5GroupName (c : Int) (n : Int) (castCodes l)
      = castCodes (ArmiVerif.SnapStore.name ⟨c, n, l⟩) := by
  unfold ArmiVerif.Gen.Src.Database.getH5GroupName ArmiVerif.SnapStore.name
  (try simp only [])
  simp only [fill2 c hc, fill2 n hn, fmtD2 c hc, fmtD2 n hn]
  cases l <;> simp [castCodes]

end ArmiVerif.SrcTie
