import ArmiVerif.Gen.Src
import ArmiVerif.Props.SrcTie.Tactic
import ArmiVerif.Model.Hex
open ArmiVerif ArmiVerif.Gen.Src ArmiVerif.PyInt

namespace ArmiVerif.SrcTie

/-- `HexGrid._indicesAndEdgeFromRingAndPos` as written now: its (i, j) part = `Hex.fromRingPos`
(including where it raises), for all integers -/
theorem indicesAndEdge_eq (ring pos : Int) :
    (Hexagonal.HexGrid._indicesAndEdgeFromRingAndPos ring pos).map (fun t => (t.1, t.2.1))
      = Hex.fromRingPos ring pos := by
  unfold Hexagonal.HexGrid._indicesAndEdgeFromRingAndPos Hex.fromRingPos Hex.ijOfEdge
  src_tie

/-- the edge it reports is the quotient `(pos-1) // (ring-1)` in 0..5 (0 for the centre) -/
theorem indicesAndEdge_edge (ring pos : Int) (t : Int × Int × Int)
    (h : Hexagonal.HexGrid._indicesAndEdgeFromRingAndPos ring pos = some t) :
    0 ≤ t.2.2 ∧ t.2.2 ≤ 5 ∧ (ring - 1 ≠ 0 → t.2.2 = Int.fdiv (pos - 1) (ring - 1)) := by
  unfold Hexagonal.HexGrid._indicesAndEdgeFromRingAndPos at h
  grind

end ArmiVerif.SrcTie
