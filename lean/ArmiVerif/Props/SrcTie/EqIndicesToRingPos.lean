import ArmiVerif.Gen.Src
import ArmiVerif.Props.SrcTie.Tactic
import ArmiVerif.Model.Hex
open ArmiVerif ArmiVerif.Gen.Src ArmiVerif.PyInt

namespace ArmiVerif.SrcTie

/-- `HexGrid.indicesToRingPos` as written now = `Hex.toRingPos`, for every cell of ℤ² -/
theorem indicesToRingPos_eq (i j : Int) :
    Hexagonal.HexGrid.indicesToRingPos i j = Hex.toRingPos i j := by
  unfold Hexagonal.HexGrid.indicesToRingPos Hex.toRingPos Hex.ero
  src_tie

end ArmiVerif.SrcTie
