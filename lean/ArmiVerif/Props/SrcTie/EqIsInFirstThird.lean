import ArmiVerif.Gen.Src
import ArmiVerif.Props.SrcTie.Tactic
import ArmiVerif.Props.SrcTie.EqIndicesToRingPos
import ArmiVerif.Model.Hex
open ArmiVerif ArmiVerif.Gen.Src ArmiVerif.PyInt

namespace ArmiVerif.SrcTie

/-- `HexGrid.isInFirstThird` as written now = `Hex.inFirstThird` (for every cell, both edge options) -/
theorem isInFirstThird_eq (top : Bool) (c : Int × Int × Int) :
    Hexagonal.HexGrid.isInFirstThird top c = Hex.inFirstThird top (c.1, c.2.1) := by
  unfold Hexagonal.HexGrid.isInFirstThird Hexagonal.HexGrid.getRingPos Hexagonal.HexGrid.getPositionsInRing
    Hexagon.numPositionsInRing Hex.inFirstThird Hex.positionsInRing
  simp only [indicesToRingPos_eq]
  generalize Hex.toRingPos c.1 c.2.1 = rp
  (try src_norm)
  cases top <;> src_tie

end ArmiVerif.SrcTie
