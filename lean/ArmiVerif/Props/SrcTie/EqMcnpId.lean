import ArmiVerif.Gen.Src
import ArmiVerif.Props.SrcTie.Tactic
import ArmiVerif.Model.Nuclide
open ArmiVerif ArmiVerif.Gen.Src ArmiVerif.PyInt

namespace ArmiVerif.SrcTie

/-- `NuclideBase.getMcnpId` as written now: the integers it formats as `"{z:d}{a:03d}"` are
`(z, Nuclide.mcnpA z a state)`, for every atomic number, mass number and isomeric state -/
theorem getMcnpId_eq (z a s : Nat) :
    NuclideBases.NuclideBase.getMcnpId (z : Int) (a : Int) (s : Int)
      = ((z : Int), ((Nuclide.mcnpA z a s : Nat) : Int)) := by
  unfold NuclideBases.NuclideBase.getMcnpId Nuclide.mcnpA
  first
  | (grind; done)
  | ((repeat' split) <;> (first | omega | grind | (simp_all <;> omega)) <;> done)

end ArmiVerif.SrcTie
