import ArmiVerif.Gen.Src
import ArmiVerif.Props.SrcTie.Tactic
import ArmiVerif.Model.Hex
open ArmiVerif ArmiVerif.Gen.Src ArmiVerif.PyInt

namespace ArmiVerif.SrcTie

/-- `HexGrid.getNeighboringCellIndices` as written now: (i, j) parts = `Hex.neighbours`, k unchanged -/
theorem getNeighboringCellIndices_eq (i j k : Int) :
    (Hexagonal.HexGrid.getNeighboringCellIndices i j k).map (fun t => (t.1, t.2.1)) = Hex.neighbours i j
    ∧ ∀ t ∈ Hexagonal.HexGrid.getNeighboringCellIndices i j k, t.2.2 = k := by
  unfold Hexagonal.HexGrid.getNeighboringCellIndices Hex.neighbours
  constructor
  · simp
  · simp

end ArmiVerif.SrcTie
