import ArmiVerif.Gen.Src
import ArmiVerif.Props.SrcTie.Tactic
import ArmiVerif.Props.SrcTie.NodesLemmas
import ArmiVerif.Model.Schedule
open ArmiVerif ArmiVerif.Gen.Src ArmiVerif.PyInt
set_option linter.unusedSimpArgs false

namespace ArmiVerif.SrcTie

/-- `getNodesPerCycle` as written now = `Schedule.nodesPerCycle` -/
theorem getNodesPerCycle_eq (bs : List Nat) :
    Utils.getNodesPerCycle (toInts bs) = toInts (Schedule.nodesPerCycle bs) := by
  unfold Utils.getNodesPerCycle Schedule.nodesPerCycle
  first
  | (nodes_norm; done)
  | (simp [toInts, List.map_map, Function.comp_def]; done)

end ArmiVerif.SrcTie
