import ArmiVerif.Gen.Src
import ArmiVerif.Props.SrcTie.Tactic
import ArmiVerif.Model.Hex
open ArmiVerif ArmiVerif.Gen.Src ArmiVerif.PyInt

namespace ArmiVerif.SrcTie

/-- `hexagon.numPositionsInRing` as written now = `Hex.positionsInRing`, for every integer -/
theorem numPositionsInRing_eq (ring : Int) :
    Hexagon.numPositionsInRing ring = Hex.positionsInRing ring := by
  unfold Hexagon.numPositionsInRing Hex.positionsInRing
  src_tie

end ArmiVerif.SrcTie
