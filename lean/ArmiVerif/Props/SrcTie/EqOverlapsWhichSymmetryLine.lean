import ArmiVerif.Gen.Src
import ArmiVerif.Props.SrcTie.Tactic
import ArmiVerif.Model.Hex
open ArmiVerif ArmiVerif.Gen.Src ArmiVerif.PyInt

namespace ArmiVerif.SrcTie

/-- `HexGrid.overlapsWhichSymmetryLine` as written now = `Hex.lineOf` (0 encodes `None`) -/
theorem overlapsWhichSymmetryLine_eq (c : Int × Int) :
    Hexagonal.HexGrid.overlapsWhichSymmetryLine c
      = (if Hex.lineOf c = 0 then none else some (Hex.lineOf c : Int)) := by
  unfold Hexagonal.HexGrid.overlapsWhichSymmetryLine Hex.lineOf
  src_tie

end ArmiVerif.SrcTie
