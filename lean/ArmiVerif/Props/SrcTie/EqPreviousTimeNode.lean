import ArmiVerif.Gen.Src
import ArmiVerif.Props.SrcTie.Tactic
import ArmiVerif.Props.SrcTie.NodesLemmas
import ArmiVerif.Model.Schedule
open ArmiVerif ArmiVerif.Gen.Src ArmiVerif.PyInt
set_option linter.unusedSimpArgs false

namespace ArmiVerif.SrcTie

/-- `getPreviousTimeNode` as written now = `Schedule.prevNode` (a raise is `none`) -/
theorem getPreviousTimeNode_eq (bs : List Nat) (c n : Nat) :
    Utils.getPreviousTimeNode (c : Int) (n : Int) (toInts bs)
      = (Schedule.prevNode bs c n).map (fun p => ((p.1 : Int), (p.2 : Int))) := by
  unfold Utils.getPreviousTimeNode Schedule.prevNode Schedule.nodesPerCycle
  (try unfold Utils.getNodesPerCycle)
  rcases Nat.eq_zero_or_pos n with rfl | hn
  · rcases Nat.eq_zero_or_pos c with rfl | hc
    · simp
    · obtain ⟨k, rfl⟩ : ∃ k, c = k + 1 := ⟨c - 1, by omega⟩
      have hk : ¬ ((((k + 1 : Nat) : Int), (0 : Int)) = ((0 : Int), (0 : Int))) := by
        intro h; simp only [Prod.mk.injEq] at h; omega
      simp only [Int.natCast_zero, hk, if_false, ne_eq, not_true_eq_false, if_true, reduceIte,
        Nat.add_one_ne_zero, false_and, Nat.add_sub_cancel]
      nodes_norm
      cases bs[k]? <;> simp <;> omega
  · have h1 : ¬ (((c : Int), (n : Int)) = ((0 : Int), (0 : Int))) := by
      intro h; simp only [Prod.mk.injEq] at h; omega
    have h2 : ¬ ((n : Int) = 0) := by omega
    have h4 : n ≠ 0 := by omega
    simp [h1, h2, h4]
    omega

end ArmiVerif.SrcTie
