import ArmiVerif.Gen.Src
import ArmiVerif.Props.SrcTie.Tactic
import ArmiVerif.Model.Hex
open ArmiVerif.PyInt
set_option linter.unusedSimpArgs false

namespace ArmiVerif.SrcTie

/-- `HexGrid.rotateIndex` as written now (the deque of the three cubic coordinates rotated by `-rotations`) =
`Hex.rotateIndex`, for every cell and every integer number of rotations; an inconsistent grid is a raise -/
theorem rotateIndex_eq (rotations : Int) (consistent : Bool) (c : Int × Int × Int) :
    ArmiVerif.Gen.Src.Hexagonal.HexGrid.rotateIndex rotations consistent c
      = if consistent = true then
          some ((ArmiVerif.Hex.rotateIndex rotations (c.1, c.2.1)).1, (ArmiVerif.Hex.rotateIndex rotations (c.1, c.2.1)).2, c.2.2)
        else none := by
  unfold ArmiVerif.Gen.Src.Hexagonal.HexGrid.rotateIndex ArmiVerif.Hex.rotateIndex
  cases consistent
  · simp
  · simp only [if_true, Int.neg_neg]
    (try src_norm)
    have h3 : rotations % 3 = 0 ∨ rotations % 3 = 1 ∨ rotations % 3 = 2 := by omega
    have h2 : rotations % 2 = 0 ∨ rotations % 2 = 1 := by omega
    rcases h3 with h | h | h <;> rcases h2 with g | g <;> simp [h, g] <;> omega

end ArmiVerif.SrcTie
