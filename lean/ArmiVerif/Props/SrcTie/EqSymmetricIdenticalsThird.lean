import ArmiVerif.Gen.Src
import ArmiVerif.Props.SrcTie.Tactic
import ArmiVerif.Model.Hex
open ArmiVerif ArmiVerif.Gen.Src ArmiVerif.PyInt

namespace ArmiVerif.SrcTie

/-- `HexGrid._getSymmetricIdenticalsThird` as written now = `Hex.sym3` of the first two indices -/
theorem getSymmetricIdenticalsThird_eq (c : Int × Int × Int) :
    Hexagonal.HexGrid._getSymmetricIdenticalsThird c = Hex.sym3 (c.1, c.2.1) := by
  unfold Hexagonal.HexGrid._getSymmetricIdenticalsThird Hex.sym3
  src_tie

end ArmiVerif.SrcTie
