import ArmiVerif.Gen.Src
import ArmiVerif.Props.SrcTie.Tactic
import ArmiVerif.Model.Hex
open ArmiVerif ArmiVerif.Gen.Src ArmiVerif.PyInt

namespace ArmiVerif.SrcTie

/-- `hexagon.totalPositionsUpToRing` as written now = `Hex.totalUpTo` on every ring count ≥ 0 -/
theorem totalPositionsUpToRing_eq (r : Nat) :
    Hexagon.totalPositionsUpToRing (r : Int) = (Hex.totalUpTo r : Int) := by
  unfold Hexagon.totalPositionsUpToRing Hex.totalUpTo
  cases r with
  | zero => simp
  | succ k =>
    have e : k + 1 - 1 = k := by omega
    rw [e]
    push_cast
    grind

end ArmiVerif.SrcTie
