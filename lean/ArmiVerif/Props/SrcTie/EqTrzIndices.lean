import ArmiVerif.Gen.Src
import ArmiVerif.Props.SrcTie.Tactic
import ArmiVerif.Model.Grid
open ArmiVerif ArmiVerif.Gen.Src ArmiVerif.PyInt

namespace ArmiVerif.SrcTie

/-- `ThetaRZGrid.getIndicesFromRingAndPos` as written now = `Grid.trzFromRingPos` -/
theorem trzGetIndicesFromRingAndPos_eq (ring pos : Int) :
    Thetarz.ThetaRZGrid.getIndicesFromRingAndPos ring pos = Grid.trzFromRingPos ring pos := by
  unfold Thetarz.ThetaRZGrid.getIndicesFromRingAndPos Grid.trzFromRingPos
  src_tie

end ArmiVerif.SrcTie
