import ArmiVerif.Gen.Src
import ArmiVerif.Props.SrcTie.Tactic
import ArmiVerif.Model.Grid
open ArmiVerif ArmiVerif.Gen.Src ArmiVerif.PyInt

namespace ArmiVerif.SrcTie

/-- `ThetaRZGrid.getRingPos` as written now = `Grid.trzRingPos` -/
theorem trzGetRingPos_eq (c : Int × Int × Int) :
    Thetarz.ThetaRZGrid.getRingPos c = Grid.trzRingPos c.1 c.2.1 := by
  unfold Thetarz.ThetaRZGrid.getRingPos Grid.trzRingPos
  src_tie

end ArmiVerif.SrcTie
