import ArmiVerif.Gen.Src
import ArmiVerif.Model.XsGroup
import ArmiVerif.Props.SrcTie.XsLemmas
open ArmiVerif ArmiVerif.Gen.Src ArmiVerif.PyInt
set_option linter.unusedSimpArgs false

namespace ArmiVerif.SrcTie

/-- the translated function agrees with the model at `n` -/
def labelAgrees (n : Nat) : Bool :=
  decide (CrossSectionGroupManager.getXSTypeLabelFromNumber (n : Int) = (XsGroup.numberToLabel n).map castL)

theorem labelSmall' : ((List.range 1300).all labelAgrees) = true := by decide +kernel

theorem label2' : (admCodes.all fun c1 => admCodes.all fun c2 =>
    match XsGroup.labelToNumber [c1, c2] with
    | some n => labelAgrees n
    | none => false) = true := by decide +kernel

/-- `getXSTypeLabelFromNumber` as written now = `XsGroup.numberToLabel` on every number below 1300 (all one-, two- and
three-digit numbers, the refused ones included) -/
theorem getXSTypeLabelFromNumber_eq_small (n : Nat) (h : n < 1300) :
    CrossSectionGroupManager.getXSTypeLabelFromNumber (n : Int) = (XsGroup.numberToLabel n).map castL := by
  have := List.all_eq_true.1 labelSmall' n (by simpa using h)
  simpa [labelAgrees] using this

/-- … and on the number of every admissible label -/
theorem getXSTypeLabelFromNumber_eq (l : List Nat) (h : XsGroup.admissible l = true) (n : Nat)
    (hn : XsGroup.labelToNumber l = some n) :
    CrossSectionGroupManager.getXSTypeLabelFromNumber (n : Int) = (XsGroup.numberToLabel n).map castL := by
  simp only [XsGroup.admissible, Bool.and_eq_true, Bool.or_eq_true, beq_iff_eq, List.all_eq_true] at h
  obtain ⟨hl, ha⟩ := h
  match l, hl, ha with
  | [c], _, ha =>
    have hc := ha c (by simp)
    have hlt : c < 123 := by
      simp only [XsGroup.admissibleChar, Bool.or_eq_true, Bool.and_eq_true, decide_eq_true_eq] at hc
      omega
    have : n = c := by
      simp [XsGroup.labelToNumber] at hn; omega
    subst this
    exact getXSTypeLabelFromNumber_eq_small n (by omega)
  | [c1, c2], _, ha =>
    have := List.all_eq_true.1 (List.all_eq_true.1 label2' c1 (mem_admCodes c1 (ha c1 (by simp)))) c2
      (mem_admCodes c2 (ha c2 (by simp)))
    rw [hn] at this
    simpa [labelAgrees] using this
  | [], hl, _ => simp at hl
  | _ :: _ :: _ :: _, hl, _ => simp at hl

end ArmiVerif.SrcTie
