import ArmiVerif.Gen.Src
import ArmiVerif.Model.XsGroup
import ArmiVerif.Props.SrcTie.XsLemmas
open ArmiVerif ArmiVerif.Gen.Src ArmiVerif.PyInt
set_option linter.unusedSimpArgs false

namespace ArmiVerif.SrcTie

theorem number1' : (admCodes.all fun c => decide
    (CrossSectionGroupManager.getXSTypeNumberFromLabel [(c : Int)]
      = (XsGroup.labelToNumber [c]).map (fun (n : Nat) => (n : Int)))) = true := by decide +kernel

theorem number2' : (admCodes.all fun c1 => admCodes.all fun c2 => decide
    (CrossSectionGroupManager.getXSTypeNumberFromLabel [(c1 : Int), (c2 : Int)]
      = (XsGroup.labelToNumber [c1, c2]).map (fun (n : Nat) => (n : Int)))) = true := by decide +kernel

/-- `getXSTypeNumberFromLabel` as written now = `XsGroup.labelToNumber` on every admissible label
(one or two characters A–Z a–z: the finite domain of the property, checked by kernel evaluation) -/
theorem getXSTypeNumberFromLabel_eq (l : List Nat) (h : XsGroup.admissible l = true) :
    CrossSectionGroupManager.getXSTypeNumberFromLabel (castL l)
      = (XsGroup.labelToNumber l).map (fun (n : Nat) => (n : Int)) := by
  simp only [XsGroup.admissible, Bool.and_eq_true, Bool.or_eq_true, beq_iff_eq, List.all_eq_true] at h
  obtain ⟨hl, ha⟩ := h
  match l, hl, ha with
  | [c], _, ha =>
    have := List.all_eq_true.1 number1' c (mem_admCodes c (ha c (by simp)))
    simpa [castL] using this
  | [c1, c2], _, ha =>
    have := List.all_eq_true.1 (List.all_eq_true.1 number2' c1 (mem_admCodes c1 (ha c1 (by simp)))) c2
      (mem_admCodes c2 (ha c2 (by simp)))
    simpa [castL] using this
  | [], hl, _ => simp at hl
  | _ :: _ :: _ :: _, hl, _ => simp at hl

end ArmiVerif.SrcTie
