import ArmiVerif.Model.PyInt
open ArmiVerif ArmiVerif.PyInt

/-! Lists of burn steps as Python sees them (`List Int`) versus the model's `List Nat`: the lemmas that move
the translator's list primitives (`pyTake`, `pySum`, `pyIdx`, comprehension `map`) to `Nat`-level facts. -/
namespace ArmiVerif.SrcTie

/-- burn steps as Python sees them -/
def toInts (bs : List Nat) : List Int := bs.map (fun (b : Nat) => (b : Int))

theorem length_toInts (l : List Nat) : (toInts l).length = l.length := by simp [toInts]

theorem pySum_toInts (l : List Nat) : pySum (toInts l) = ((l.sum : Nat) : Int) := by
  unfold pySum
  induction l with
  | nil => rfl
  | cons x xs ih => simp [toInts] at ih ⊢; omega

theorem pyTake_toInts (l : List Nat) (k : Nat) : pyTake (toInts l) (k : Int) = toInts (l.take k) := by
  unfold pyTake
  simp [toInts, List.map_take]

theorem pyIdx_toInts (l : List Nat) (k : Nat) :
    pyIdx (toInts l) (k : Int) = (l[k]?).map (fun (b : Nat) => (b : Int)) := by
  unfold pyIdx
  simp [toInts]

theorem map_succ_toInts (l : List Nat) :
    List.map (fun (s : Int) => s + 1) (toInts l) = toInts (l.map (fun s => s + 1)) := by
  simp [toInts, List.map_map, Function.comp_def]

theorem sum_map_succ (l : List Nat) : (l.map (fun s => s + 1)).sum = l.sum + l.length := by
  induction l with
  | nil => rfl
  | cons x xs ih => simp at ih ⊢; omega

theorem take_map_succ (l : List Nat) (k : Nat) :
    (l.map (fun s => s + 1)).take k = (l.take k).map (fun s => s + 1) := by
  simp [List.map_take]

theorem pyIdx_toInts_append (pre : List Nat) (x : Nat) (rest : List Nat) :
    pyIdx (toInts (pre ++ x :: rest)) (pre.length : Int) = some (x : Int) := by
  rw [pyIdx_toInts]
  simp

theorem pred_succ_cast (k : Nat) : ((k + 1 : Nat) : Int) - 1 = (k : Int) := by omega

/-- normalise list expressions over `toInts` to `Nat`-level facts -/
macro "nodes_norm" : tactic => `(tactic|
  simp only [map_succ_toInts, pyTake_toInts, pySum_toInts, pyIdx_toInts, length_toInts, take_map_succ,
    sum_map_succ, Int.ofNat_eq_natCast, List.getElem?_map, pred_succ_cast] at *)

end ArmiVerif.SrcTie
