import ArmiVerif.Model.PyInt
/-
Tactics shared by the source-tie modules (core Lean only).

`src_tie` proves "translated definition = hand model definition" goals after both sides have been
unfolded.  It is deliberately a portfolio of rewrite-tolerant procedures (congruence closure + linear
integer arithmetic + case splitting) rather than a script that follows the shape of today's source:
a refactor of the Python that reorders branches, renames locals, nests an `elif` chain or replaces an
expression by an algebraically equal one changes the generated term, not the tactic.
-/
namespace ArmiVerif.SrcTie

/-- residual goals: Bool equations between `decide`s / linear integer facts -/
macro "src_close" : tactic => `(tactic| first
  | omega
  | (rw [Bool.eq_iff_iff] <;> simp only [Bool.or_eq_true, Bool.and_eq_true, Bool.not_eq_true', decide_eq_true_eq,
      decide_eq_false_iff_not] <;> omega)
  | (simp only [Bool.or_eq_true, Bool.and_eq_true, Bool.not_eq_true', decide_eq_true_eq,
      decide_eq_false_iff_not, Prod.mk.injEq, Option.some.injEq] at * <;> omega)
  | grind
  | (simp_all <;> omega))

/-- close an equality of two if/let/match ladders over `Int` -/
macro "src_tie_core" : tactic => `(tactic| first
  | (grind; done)
  | ((try simp only []) <;> (repeat' split) <;> (try simp_all) <;> (try src_close) <;> done)
  | ((repeat' split) <;> (try src_close) <;> done)
  | ((try simp only []) <;> (repeat' split) <;> (try simp only [] at *) <;> (try src_close) <;> done))

macro "src_tie" : tactic => `(tactic| first
  | src_tie_core
  | ((simp only [ArmiVerif.PyInt.pyAbs] at *) <;> src_tie_core))

/-- Python floor division / modulo by a positive literal = Lean `/`, `%` (what `omega` understands) -/
theorem fdiv_pos_lit (a b : Int) (h : 0 < b) : Int.fdiv a b = a / b :=
  Int.fdiv_eq_ediv_of_nonneg a (Int.le_of_lt h)
theorem fmod_pos_lit (a b : Int) (h : 0 < b) : Int.fmod a b = a % b :=
  Int.fmod_eq_emod_of_nonneg a (Int.le_of_lt h)

/-- rewrite `Int.fdiv _ n`, `Int.fmod _ n` with a positive literal `n` everywhere -/
macro "src_norm" : tactic => `(tactic|
  simp only [fdiv_pos_lit, fmod_pos_lit, Int.reduceLT, Int.reduceLE, Int.zero_lt_one] at *)

end ArmiVerif.SrcTie
