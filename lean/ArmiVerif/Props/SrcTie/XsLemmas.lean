import ArmiVerif.Model.XsGroup
open ArmiVerif

/-! label code points: shared by the two XS label equivalence modules (independent of Gen/Src.lean) -/
namespace ArmiVerif.SrcTie

/-- code points of the admissible XS type characters A–Z a–z -/
def admCodes : List Nat := (List.range 123).filter XsGroup.admissibleChar

/-- a label / number as Python sees it -/
def castL (l : List Nat) : List Int := l.map (fun (c : Nat) => (c : Int))

theorem mem_admCodes (c : Nat) (h : XsGroup.admissibleChar c = true) : c ∈ admCodes := by
  have hlt : c < 123 := by
    simp only [XsGroup.admissibleChar, Bool.or_eq_true, Bool.and_eq_true, decide_eq_true_eq] at h
    omega
  simp [admCodes, List.mem_filter, hlt, h]

end ArmiVerif.SrcTie
