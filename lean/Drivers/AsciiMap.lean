import ArmiVerif.Model.Proto
import ArmiVerif.Model.AsciiMap
open ArmiVerif ArmiVerif.Proto ArmiVerif.AsciiMap

/-!
Line protocol for the ascii-map model.
  read  KIND [[t,t,..],[..],..]      text lines top to bottom, tokens
  write KIND [i:j:tok,...]           indexed contents (insertion order)
  gridcontents KIND T|F [[..],..]    what GridBlueprint keeps of a lattice map (T: full domain; Cartesian full maps are centred)
  dispatch GEOM DOMAIN               -> cart|third|full|tips|reject   (asciiMapFromGeomAndDomain on the geometry string)
  savelattice GEOM DOMAIN [i:j:tok,..]  -> reject | [[..],..]   (saveToStream, tryMap)
  readlattice GEOM DOMAIN [[..],..]     -> reject | [i:j:tok,..] (_readGridContentsLattice)
KIND = cart | third | full | tips.  Answers:
  read  -> reject | labels=[i:j:tok,..sorted] offsets=[..] slot=N dims=maxCol,maxLine,ijMax,offCorner
  write -> reject | lines=[[..],..] offsets=[..] slot=N printable=T|F back=reject|[i:j:tok,..sorted]
-/

def parseKind? : String → Option Kind
  | "cart" => some .cart | "third" => some .third | "full" => some .full | "tips" => some .tips | _ => none

def parseLabel? (s : String) : Option (Cell × String) :=
  match s.splitOn ":" with
  | [i, j, t] => do let i ← i.toInt?; let j ← j.toInt?; pure ((i, j), t)
  | _ => none

def cellLe (a b : Cell × String) : Bool := a.1.1 < b.1.1 || (a.1.1 == b.1.1 && a.1.2 ≤ b.1.2)

def showLabels (l : Labels) : String :=
  showList (fun p => toString p.1.1 ++ ":" ++ toString p.1.2 ++ ":" ++ p.2) (l.mergeSort cellLe)

def showLines (l : List (List String)) : String := showList (showList id) l

def answer : List String → String
  | ["read", k, lines] => match parseKind? k, parseList? (parseList? some) lines with
      | some k, some lines => match readAscii k lines with
        | none => "reject"
        | some m => "labels=" ++ showLabels m.labels ++ " offsets=" ++ showList toString m.offsets ++
            " slot=" ++ toString m.slot ++ " dims=" ++ toString m.maxCol ++ "," ++ toString m.maxLine ++ "," ++
            toString m.ijMax ++ "," ++ toString m.offCorner
      | _, _ => "bad-op"
  | ["gridcontents", k, full, lines] => match parseKind? k, parseBool? full, parseList? (parseList? some) lines with
      | some k, some full, some lines => match readAscii k lines with
        | none => "reject"
        | some m => showLabels (if k == .cart && full then cartCentre m.labels else dataOf m.labels)
      | _, _, _ => "bad-op"
  | ["write", k, labels] => match parseKind? k, parseList? parseLabel? labels with
      | some k, some labels => match gridContentsToAscii k labels with
        | none => "reject"
        | some m =>
          let back := if printable m then
              match readAscii k m.lines with
              | some m2 => showLabels m2.labels
              | none => "reject"
            else "reject"
          "lines=" ++ showLines m.lines ++ " offsets=" ++ showList toString m.offsets ++ " slot=" ++ toString m.slot ++
            " printable=" ++ showBool (printable m) ++ " back=" ++ back
      | _, _ => "bad-op"
  | ["dispatch", g, d] => match dispatch g d with
      | some .cart => "cart" | some .third => "third" | some .full => "full" | some .tips => "tips" | none => "reject"
  | ["savelattice", g, d, labels] => match parseList? parseLabel? labels with
      | some labels => match saveLattice g d labels with
        | none => "reject"
        | some (_, lines) => showLines lines
      | none => "bad-op"
  | ["readlattice", g, d, lines] => match parseList? (parseList? some) lines with
      | some lines => match readLattice g d lines with
        | none => "reject"
        | some l => showLabels l
      | none => "bad-op"
  | _ => "bad-op"

def main : IO Unit := loop answer
