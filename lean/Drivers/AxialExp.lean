import ArmiVerif.Model.Proto
import ArmiVerif.Model.AxialExp
open ArmiVerif ArmiVerif.Proto ArmiVerif.AxialExp

def parseOptNat? (s : String) : Option (Option Nat) :=
  if s = "_" then some none else (parseNat? s).map some

def mkBlocks (hs zbs zts : List Rat) (nds areas : List (List Rat)) : Option (List Block) :=
  if hs.length = zbs.length ∧ zbs.length = zts.length ∧ zts.length = nds.length ∧ nds.length = areas.length
      ∧ (List.zip nds areas).all (fun p => p.1.length == p.2.length) then
    some ((List.zip (List.zip hs (List.zip zbs zts)) (List.zip nds areas)).map (fun x =>
      { h := x.1.1, zb := x.1.2.1, zt := x.1.2.2,
        comps := (List.zip x.2.1 x.2.2).map (fun c => { nd := c.1, area := c.2, h := 0, zb := 0, zt := 0 }) }))
  else none

def mkInp (gs : List (List Rat)) (lowers : List (List (Option Nat))) (targets : List (Option Nat)) : Inp :=
  { g := fun ib ic => ((gs[ib]?).bind (·[ic]?)).getD 1
    lower := fun ib ic => ((lowers[ib]?).bind (·[ic]?)).getD none
    target := fun ib => (targets[ib]?).getD none }

def showComp (c : Comp) : String := showList showRat [c.nd, c.h, c.zb, c.zt]

def showBlock (b : Block) : String :=
  "[" ++ showRat b.h ++ "," ++ showRat b.zb ++ "," ++ showRat b.zt ++ "," ++ showList showComp b.comps ++ "]"

def answer : List String → String
  | ["expand", hs, zbs, zts, nds, areas, gs, lowers, targets] =>
    match parseRatList? hs, parseRatList? zbs, parseRatList? zts, parseList? parseRatList? nds,
          parseList? parseRatList? areas, parseList? parseRatList? gs,
          parseList? (parseList? parseOptNat?) lowers, parseList? parseOptNat? targets with
    | some hs, some zbs, some zts, some nds, some areas, some gs, some lowers, some targets =>
      match mkBlocks hs zbs zts nds areas with
      | some a =>
        match expand (mkInp gs lowers targets) a with
        | some r => showList showBlock r ++ " " ++ showList showRat (mesh r)
        | none => "reject"
      | none => "bad-op"
    | _, _, _, _, _, _, _, _ => "bad-op"
  | _ => "bad-op"

def main : IO Unit := loop answer
