import ArmiVerif.Model.Proto
import ArmiVerif.Model.AxialExp
import ArmiVerif.Model.Linkage
open ArmiVerif ArmiVerif.Proto ArmiVerif.AxialExp ArmiVerif.Linkage

def parseOptNat? (s : String) : Option (Option Nat) :=
  if s = "_" then some none else (parseNat? s).map some

def mkBlocks (hs zbs zts : List Rat) (nds areas : List (List Rat)) : Option (List Block) :=
  if hs.length = zbs.length ∧ zbs.length = zts.length ∧ zts.length = nds.length ∧ nds.length = areas.length
      ∧ (List.zip nds areas).all (fun p => p.1.length == p.2.length) then
    some ((List.zip (List.zip hs (List.zip zbs zts)) (List.zip nds areas)).map (fun x =>
      { h := x.1.1, zb := x.1.2.1, zt := x.1.2.2,
        comps := (List.zip x.2.1 x.2.2).map (fun c => { nd := c.1, area := c.2, h := 0, zb := 0, zt := 0 }) }))
  else none

def mkInp (gs : List (List Rat)) (lowers : List (List (Option Nat))) (targets : List (Option Nat)) : Inp :=
  { g := fun ib ic => ((gs[ib]?).bind (·[ic]?)).getD 1
    lower := fun ib ic => ((lowers[ib]?).bind (·[ic]?)).getD none
    target := fun ib => (targets[ib]?).getD none }

def showComp (c : Comp) : String := showList showRat [c.nd, c.h, c.zb, c.zt]

def showBlock (b : Block) : String :=
  "[" ++ showRat b.h ++ "," ++ showRat b.zb ++ "," ++ showRat b.zt ++ "," ++ showList showComp b.comps ++ "]"

/-- geometry of one solid component: [ty, unshaped(0/1), solid(0/1), mult, id, od] -/
def parseGeo? (s : String) : Option Geo := do
  let xs ← parseRatList? s
  match xs with
  | [ty, un, so, m, i, o] => some { ty := ty.num.toNat, unshaped := un != 0, solid := so != 0, mult := m, idc := i, odc := o }
  | _ => none

def showOptNat : Option Nat → String
  | none => "_"
  | some n => toString n

def showLink (x : Option Nat × Option Nat) : String := "(" ++ showOptNat x.1 ++ "," ++ showOptNat x.2 ++ ")"

def parseTComp? (s : String) : Option TComp := do
  let xs ← parseNatList? s
  match xs with
  | [f, so] => some { flags := f, solid := so != 0 }
  | _ => none

def parseKey? (s : String) : Option Key := do
  let xs ← parseNatList? s
  match xs with
  | [ib, ic] => some (ib, ic)
  | _ => none

/-- one step `[[key,...],[frac,...]]` with keys `[ib,ic]` -/
def parseStep? (s : String) : Option (List Key × List Rat) := do
  let parts ← splitTop s
  match parts with
  | [ks, fs] => do
    let ks ← parseList? parseKey? ks
    let fs ← parseRatList? fs
    pure (ks, fs)
  | _ => none

/-- `setExpansionFactors` call by call on one store; after every call the factor of every key `(0,0..n-1)` -/
def storeTrace (n : Nat) : Store → List (List Key × List Rat) → List String
  | _, [] => []
  | s, st :: rest =>
    let r := setExpansionFactors s st.1 st.2
    let s' := r.getD s
    ((if r.isSome then "K" else "R") ++ showList showRat ((List.range n).map (getFactor s' 0))) :: storeTrace n s' rest

def showState (r : List Block) : String := showList showBlock r ++ " " ++ showList showRat (mesh r)

/-- the re-use route step by step; stops at the first refused step -/
def reuseTrace (L : Links) : RState → List (List Key × List Rat) → List String
  | _, [] => []
  | st, step :: rest =>
    match stepReuse L st step with
    | none => ["reject"]
    | some st' => showState st'.a :: reuseTrace L st' rest

def freshTrace (L : Links) : List Block → List (List Key × List Rat) → List String
  | _, [] => []
  | a, step :: rest =>
    match stepFresh L a step with
    | none => ["reject"]
    | some a' => showState a' :: freshTrace L a' rest

-- reuse|fresh <hs> <zbs> <zts> <nds> <areas> <geo> <targets> <steps>: setAssembly once, then per step
-- setExpansionFactors + axiallyExpandAssembly on ONE store (reuse) or on a fresh store per step (fresh)
def routeAnswer (reuse : Bool) (hs zbs zts nds areas geo targets steps : String) : String :=
    match parseRatList? hs, parseRatList? zbs, parseRatList? zts, parseList? parseRatList? nds,
          parseList? parseRatList? areas, parseList? (parseList? parseGeo?) geo, parseList? parseOptNat? targets,
          parseList? parseStep? steps with
    | some hs, some zbs, some zts, some nds, some areas, some geo, some targets, some steps =>
      match mkBlocks hs zbs zts nds areas, linkAssembly none geo with
      | some a, some links =>
        let lowers := links.map (fun l => l.map (·.1))
        let L : Links := { lower := fun ib ic => ((lowers[ib]?).bind (·[ic]?)).getD none
                           target := fun ib => (targets[ib]?).getD none }
        "|".intercalate (if reuse then reuseTrace L { store := [], a := a } steps else freshTrace L a steps)
      | some _, none => "reject"
      | none, _ => "bad-op"
    | _, _, _, _, _, _, _, _ => "bad-op"

def showSpec : FactorSpec → String
  | .one => "1"
  | .fromInputTo T => "in:" ++ showRat T
  | .between T0 T => showRat T0 ++ ":" ++ showRat T

/-- thermal ops: `[0,ib,ic,T]` = updateComponentTemp, `[1]` = read the factor specs of all keys,
`[2,[grid],[field]]` = updateComponentTempsBy1DTempField -/
def thermalTrace (zbs zts : List Rat) (keys : List Key) : Thermal → List String → List String
  | _, [] => []
  | th, op :: rest =>
    match splitTop op with
    | some ["0", ib, ic, T] =>
      match parseNat? ib, parseNat? ic, parseRat? T with
      | some ib, some ic, some T => thermalTrace zbs zts keys (updateComponentTemp th (ib, ic) T) rest
      | _, _, _ => ["bad-op"]
    | some ["1"] => showList showSpec (keys.map (factorSpec th)) :: thermalTrace zbs zts keys th rest
    | some ["2", grid, field] =>
      match parseRatList? grid, parseRatList? field with
      | some grid, some field =>
        let a : List Block := (List.zip zbs zts).map (fun p => { h := p.2 - p.1, zb := p.1, zt := p.2, comps := [] })
        match updateByField th a (fun ib => keys.filter (fun k => k.1 == ib)) grid field with
        | some th' => thermalTrace zbs zts keys th' rest
        | none => ["reject"]
      | _, _ => ["bad-op"]
    | _ => ["bad-op"]

def answer : List String → String
  -- alias <heap> <cells> <factors>: changeNDensByFactor on components that may share composition cells
  | ["alias", heap, cells, fs] =>
    match parseRatList? heap, parseNatList? cells, parseRatList? fs with
    | some heap, some cells, some fs =>
      if cells.any (fun c => decide (heap.length ≤ c)) ∨ cells.length < fs.length then "bad-op"
      else showList showRat (densitiesAfter heap cells fs)
    | _, _, _ => "bad-op"
  -- thermal <fromInput T/F> <zbs> <zts> <keys [[ib,ic],..]> <temps> <ops>
  | ["thermal", fi, zbs, zts, keys, temps, ops] =>
    match parseBool? fi, parseRatList? zbs, parseRatList? zts, parseList? parseKey? keys, parseRatList? temps, splitTop ops with
    | some fi, some zbs, some zts, some keys, some temps, some ops =>
      if keys.length ≠ temps.length ∨ zbs.length ≠ zts.length then "bad-op" else
      ";".intercalate (thermalTrace zbs zts keys { fromInput := fi, ref := [], temp := List.zip keys temps } ops)
    | _, _, _, _, _, _ => "bad-op"
  -- store <n> <steps>: ExpansionData.setExpansionFactors / getExpansionFactor, call by call (keys (0,k))
  | ["store", n, steps] =>
    match parseNat? n, parseList? parseStep? steps with
    | some n, some steps => ";".intercalate (storeTrace n [] steps)
    | _, _ => "bad-op"
  | ["reuse", hs, zbs, zts, nds, areas, geo, targets, steps] => routeAnswer true hs zbs zts nds areas geo targets steps
  | ["fresh", hs, zbs, zts, nds, areas, geo, targets, steps] => routeAnswer false hs zbs zts nds areas geo targets steps
  -- blocktemps <zbs> <zts> <grid> <field>: updateComponentTempsBy1DTempField's block-average temperatures
  | ["blocktemps", zbs, zts, grid, field] =>
    match parseRatList? zbs, parseRatList? zts, parseRatList? grid, parseRatList? field with
    | some zbs, some zts, some grid, some field =>
      if zbs.length ≠ zts.length then "bad-op" else
      showOpt (showList showRat)
        (blockTemps ((List.zip zbs zts).map (fun p => { h := p.2 - p.1, zb := p.1, zt := p.2, comps := [] })) grid field)
    | _, _, _, _ => "bad-op"
  | ["expand", hs, zbs, zts, nds, areas, gs, lowers, targets] =>
    match parseRatList? hs, parseRatList? zbs, parseRatList? zts, parseList? parseRatList? nds,
          parseList? parseRatList? areas, parseList? parseRatList? gs,
          parseList? (parseList? parseOptNat?) lowers, parseList? parseOptNat? targets with
    | some hs, some zbs, some zts, some nds, some areas, some gs, some lowers, some targets =>
      match mkBlocks hs zbs zts nds areas with
      | some a =>
        match expand (mkInp gs lowers targets) a with
        | some r => showList showBlock r ++ " " ++ showList showRat (mesh r)
        | none => "reject"
      | none => "bad-op"
    | _, _, _, _, _, _, _, _ => "bad-op"
  -- the same expansion with the linkage computed by the model from the component geometry
  | ["expandg", hs, zbs, zts, nds, areas, gs, geo, targets] =>
    match parseRatList? hs, parseRatList? zbs, parseRatList? zts, parseList? parseRatList? nds,
          parseList? parseRatList? areas, parseList? parseRatList? gs,
          parseList? (parseList? parseGeo?) geo, parseList? parseOptNat? targets with
    | some hs, some zbs, some zts, some nds, some areas, some gs, some geo, some targets =>
      match mkBlocks hs zbs zts nds areas, linkAssembly none geo with
      | some a, some links =>
        let lowers := links.map (fun l => l.map (·.1))
        match expand (mkInp gs lowers targets) a with
        | some r => showList showBlock r ++ " " ++ showList showRat (mesh r)
        | none => "reject"
      | some _, none => "reject"
      | none, _ => "bad-op"
    | _, _, _, _, _, _, _, _ => "bad-op"
  | ["link", geo] =>
    match parseList? (parseList? parseGeo?) geo with
    | some geo => showOpt (showList (showList showLink)) (linkAssembly none geo)
    | none => "bad-op"
  | ["linked", a, b] =>
    match parseGeo? a, parseGeo? b with
    | some a, some b => showBool (linked a b)
    | _, _ => "bad-op"
  | ["aligned", geo, targets, shape] =>
    match parseList? (parseList? parseGeo?) geo, parseList? parseOptNat? targets, parseNatList? shape with
    | some geo, some targets, some shape =>
      showList showBool ((List.range geo.length).map (alignedB geo (fun i => (targets[i]?).getD none) shape))
    | _, _, _ => "bad-op"
  -- target <plenum> <aclp> <dummy> <fuel> <clad> <preferred> <setFuel> <bflags> <explicit: - | x | i> <children [[flags,solid],..]>
  | ["target", pl, ac, du, fu, cl, pref, sf, bf, ex, cs] =>
    match parseNat? pl, parseNat? ac, parseNat? du, parseNat? fu, parseNat? cl, parseNatList? pref, parseBool? sf,
          parseNat? bf, parseList? parseTComp? cs with
    | some pl, some ac, some du, some fu, some cl, some pref, some sf, some bf, some cs =>
      let ex? : Option (Option (Option Nat)) :=
        if ex = "-" then some none else if ex = "x" then some (some none) else (parseNat? ex).map (fun i => some (some i))
      match ex? with
      | some e =>
        match setTarget { plenum := pl, aclp := ac, dummy := du, fuel := fu, clad := cl, preferred := pref } sf
            { flags := bf, explicit := e, comps := cs } with
        | .noTarget => "none"
        | .target i => toString i
        | .error => "reject"
      | none => "bad-op"
    | _, _, _, _, _, _, _, _, _ => "bad-op"
  | _ => "bad-op"

def main : IO Unit := loop answer
