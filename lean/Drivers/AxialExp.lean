import ArmiVerif.Model.Proto
import ArmiVerif.Model.AxialExp
import ArmiVerif.Model.Linkage
open ArmiVerif ArmiVerif.Proto ArmiVerif.AxialExp ArmiVerif.Linkage

def parseOptNat? (s : String) : Option (Option Nat) :=
  if s = "_" then some none else (parseNat? s).map some

def mkBlocks (hs zbs zts : List Rat) (nds areas : List (List Rat)) : Option (List Block) :=
  if hs.length = zbs.length ∧ zbs.length = zts.length ∧ zts.length = nds.length ∧ nds.length = areas.length
      ∧ (List.zip nds areas).all (fun p => p.1.length == p.2.length) then
    some ((List.zip (List.zip hs (List.zip zbs zts)) (List.zip nds areas)).map (fun x =>
      { h := x.1.1, zb := x.1.2.1, zt := x.1.2.2,
        comps := (List.zip x.2.1 x.2.2).map (fun c => { nd := c.1, area := c.2, h := 0, zb := 0, zt := 0 }) }))
  else none

def mkInp (gs : List (List Rat)) (lowers : List (List (Option Nat))) (targets : List (Option Nat)) : Inp :=
  { g := fun ib ic => ((gs[ib]?).bind (·[ic]?)).getD 1
    lower := fun ib ic => ((lowers[ib]?).bind (·[ic]?)).getD none
    target := fun ib => (targets[ib]?).getD none }

def showComp (c : Comp) : String := showList showRat [c.nd, c.h, c.zb, c.zt]

def showBlock (b : Block) : String :=
  "[" ++ showRat b.h ++ "," ++ showRat b.zb ++ "," ++ showRat b.zt ++ "," ++ showList showComp b.comps ++ "]"

/-- geometry of one solid component: [ty, unshaped(0/1), solid(0/1), mult, id, od] -/
def parseGeo? (s : String) : Option Geo := do
  let xs ← parseRatList? s
  match xs with
  | [ty, un, so, m, i, o] => some { ty := ty.num.toNat, unshaped := un != 0, solid := so != 0, mult := m, idc := i, odc := o }
  | _ => none

def showOptNat : Option Nat → String
  | none => "_"
  | some n => toString n

def showLink (x : Option Nat × Option Nat) : String := "(" ++ showOptNat x.1 ++ "," ++ showOptNat x.2 ++ ")"

def parseTComp? (s : String) : Option TComp := do
  let xs ← parseNatList? s
  match xs with
  | [f, so] => some { flags := f, solid := so != 0 }
  | _ => none

def answer : List String → String
  | ["expand", hs, zbs, zts, nds, areas, gs, lowers, targets] =>
    match parseRatList? hs, parseRatList? zbs, parseRatList? zts, parseList? parseRatList? nds,
          parseList? parseRatList? areas, parseList? parseRatList? gs,
          parseList? (parseList? parseOptNat?) lowers, parseList? parseOptNat? targets with
    | some hs, some zbs, some zts, some nds, some areas, some gs, some lowers, some targets =>
      match mkBlocks hs zbs zts nds areas with
      | some a =>
        match expand (mkInp gs lowers targets) a with
        | some r => showList showBlock r ++ " " ++ showList showRat (mesh r)
        | none => "reject"
      | none => "bad-op"
    | _, _, _, _, _, _, _, _ => "bad-op"
  -- the same expansion with the linkage computed by the model from the component geometry
  | ["expandg", hs, zbs, zts, nds, areas, gs, geo, targets] =>
    match parseRatList? hs, parseRatList? zbs, parseRatList? zts, parseList? parseRatList? nds,
          parseList? parseRatList? areas, parseList? parseRatList? gs,
          parseList? (parseList? parseGeo?) geo, parseList? parseOptNat? targets with
    | some hs, some zbs, some zts, some nds, some areas, some gs, some geo, some targets =>
      match mkBlocks hs zbs zts nds areas, linkAssembly none geo with
      | some a, some links =>
        let lowers := links.map (fun l => l.map (·.1))
        match expand (mkInp gs lowers targets) a with
        | some r => showList showBlock r ++ " " ++ showList showRat (mesh r)
        | none => "reject"
      | some _, none => "reject"
      | none, _ => "bad-op"
    | _, _, _, _, _, _, _, _ => "bad-op"
  | ["link", geo] =>
    match parseList? (parseList? parseGeo?) geo with
    | some geo => showOpt (showList (showList showLink)) (linkAssembly none geo)
    | none => "bad-op"
  | ["linked", a, b] =>
    match parseGeo? a, parseGeo? b with
    | some a, some b => showBool (linked a b)
    | _, _ => "bad-op"
  | ["aligned", geo, targets, shape] =>
    match parseList? (parseList? parseGeo?) geo, parseList? parseOptNat? targets, parseNatList? shape with
    | some geo, some targets, some shape =>
      showList showBool ((List.range geo.length).map (alignedB geo (fun i => (targets[i]?).getD none) shape))
    | _, _, _ => "bad-op"
  -- target <plenum> <aclp> <dummy> <fuel> <clad> <preferred> <setFuel> <bflags> <explicit: - | x | i> <children [[flags,solid],..]>
  | ["target", pl, ac, du, fu, cl, pref, sf, bf, ex, cs] =>
    match parseNat? pl, parseNat? ac, parseNat? du, parseNat? fu, parseNat? cl, parseNatList? pref, parseBool? sf,
          parseNat? bf, parseList? parseTComp? cs with
    | some pl, some ac, some du, some fu, some cl, some pref, some sf, some bf, some cs =>
      let ex? : Option (Option (Option Nat)) :=
        if ex = "-" then some none else if ex = "x" then some (some none) else (parseNat? ex).map (fun i => some (some i))
      match ex? with
      | some e =>
        match setTarget { plenum := pl, aclp := ac, dummy := du, fuel := fu, clad := cl, preferred := pref } sf
            { flags := bf, explicit := e, comps := cs } with
        | .noTarget => "none"
        | .target i => toString i
        | .error => "reject"
      | none => "bad-op"
    | _, _, _, _, _, _, _, _, _ => "bad-op"
  | _ => "bad-op"

def main : IO Unit := loop answer
