import ArmiVerif.Model.Proto
import ArmiVerif.Model.Blueprint
open ArmiVerif ArmiVerif.Proto ArmiVerif.Blueprint

/-!
Line protocol for the blueprint model.
  stack [h,h,..]                         -> [(zb,zt),..]  (rationals n/d)
  dims  [comp:key=NUM:key=@comp.key,..]  -> [comp.key=VAL|reject,..]  every declared dimension, cold, links followed
  place [name=spec,..] [i:j:spec,..]     -> reject | [i:j:name,..]
  consistent NB NH NX NM                 -> T | F
  blocks [names] [heights] [xs] [mesh]   -> reject | [name|h|xs|mesh,..]      (blanks in names written as ~)
  pinduct [name:D:C:W:op:ip:od:mult,..]   -> skipped|nogap|accept|refuse duct=NAME|none rings=N|-   (HexBlock.verifyBlockDims, blueprint order)
  customdensity T|F CUSTOM DLL             -> hot density of a library solid with a custom-isotopics density
  thirdload [i:j:spec,..]                  -> reject | [i:j:spec,..]   third-core hex: Core.add with symmetryOverlap, then removeEdgeAssemblies
  firstthird I J                           -> TT|TF|FT|FF   (isInFirstThird, on the 120-degree overlap line)
  numrings N                               -> hexagon.numRingsToHoldNumCells
  mult [i:j:id,..] [ids] DECL|_          -> reject | unset | VALUE            multiplicity learned from a pin lattice
  flags [KNOWN,..] name~with~tildes      -> [FLAG,..]                         Flags.fromStringIgnoreErrors as a list
Names contain no blanks, commas, brackets, ':', '=', '@' (the harness renames).
-/

def parseDim? (s : String) : Option (String × Dim) :=
  match s.splitOn "=" with
  | [k, v] =>
    if v.startsWith "@" then
      match ((v.drop 1).toString).splitOn "." with
      | [c, kk] => some (k, Dim.link c kk)
      | _ => none
    else (parseRat? v).map (fun q => (k, Dim.num q))
  | _ => none

def parseComp? (s : String) : Option Comp :=
  match s.splitOn ":" with
  | [] => none
  | n :: ds => (ds.mapM parseDim?).map (fun ds => { name := n, dims := ds })

def parseDesign? (s : String) : Option AssemDesign :=
  match s.splitOn "=" with
  | [n, sp] => some { name := n, specifier := sp, blocks := [], heights := [], xsTypes := [], meshPoints := [] }
  | _ => none

def parseContent? (s : String) : Option (Cell × String) :=
  match s.splitOn ":" with
  | [i, j, t] => do let i ← i.toInt?; let j ← j.toInt?; pure ((i, j), t)
  | _ => none

/-- `name:D:C:W:op:ip:od:mult` with D/C/W ∈ {T,F} (blanks in names written as ~) -/
def parsePComp? (s : String) : Option PComp :=
  match s.splitOn ":" with
  | [n, d, c, w, op, ip, od, m] => do
      let d ← parseBool? d; let c ← parseBool? c; let w ← parseBool? w
      let op ← parseRat? op; let ip ← parseRat? ip; let od ← parseRat? od; let m ← m.toNat?
      pure { name := n, duct := d, clad := c, wire := w, op := op, ip := ip, od := od, mult := m }
  | _ => none

def answer : List String → String
  | ["stack", hs] => match parseRatList? hs with
      | some hs => showList (fun p => "(" ++ showRat p.1 ++ "," ++ showRat p.2 ++ ")") (stack hs)
      | none => "bad-op"
  | ["dims", cs] => match parseList? parseComp? cs with
      | some cs =>
        let fuel := fuelFor cs
        showList id (cs.flatMap (fun c => c.dims.map (fun d =>
          c.name ++ "." ++ d.1 ++ "=" ++ (match resolve cs fuel c.name d.1 with
            | some q => showRat q | none => "reject"))))
      | none => "bad-op"
  | ["place", ds, cont] => match parseList? parseDesign? ds, parseList? parseContent? cont with
      | some ds, some cont => match place ds cont with
        | some r => showList (fun p => toString p.1.1 ++ ":" ++ toString p.1.2 ++ ":" ++ p.2.name) r
        | none => "reject"
      | _, _ => "bad-op"
  | ["consistent", nb, nh, nx, nm] => match nb.toNat?, nh.toNat?, nx.toNat?, nm.toNat? with
      | some nb, some nh, some nx, some nm =>
        let d : AssemDesign := ⟨"", "", List.replicate nb "", List.replicate nh 0, List.replicate nx "", List.replicate nm 0⟩
        showBool (consistent d)
      | _, _, _, _ => "bad-op"
  | ["blocks", bs, hs, xs, ms] =>
      match parseList? some bs, parseRatList? hs, parseList? some xs, parseNatList? ms with
      | some bs, some hs, some xs, some ms =>
        let d : AssemDesign := ⟨"", "", bs, hs, xs, ms⟩
        (match pairBlocks d with
         | none => "reject"
         | some r => showList (fun q => q.1 ++ "|" ++ showRat q.2.1 ++ "|" ++ q.2.2.1 ++ "|" ++ toString q.2.2.2) r)
      | _, _, _, _ => "bad-op"
  | ["listsok", nb, lens] => match nb.toNat?, parseNatList? lens with
      | some nb, some lens => showBool (listsConsistent nb lens)
      | _, _ => "bad-op"
  | ["mult", grid, ids, decl] =>
      match parseList? parseContent? grid, parseList? some ids with
      | some grid, some ids =>
        let d : Option (Option Rat) := if decl = "_" then some none else (parseRat? decl).map some
        (match d with
         | none => "bad-op"
         | some d => match multFromGrid grid ids d with
           | none => "reject"
           | some none => "unset"
           | some (some q) => showRat q)
      | _, _ => "bad-op"
  | ["flags", known, name] =>
      match parseList? some known with
      | some known => showList id ((flagsOfName known (name.replace "~" " ")).mergeSort (fun a b => decide (a ≤ b)))
      | none => "bad-op"
  | ["pinduct", cs] => match parseList? parsePComp? cs with
      | some cs =>
        let v := match verifyBlockDims cs with
          | .skipped => "skipped" | .nogap => "nogap" | .accept => "accept" | .refuse => "refuse"
        let d := match firstMin (cs.filter (·.duct)) with | some d => d.name | none => "none"
        let r := match getOne (·.clad) cs with | some (some c) => toString (numRings c.mult) | _ => "-"
        v ++ " duct=" ++ d ++ " rings=" ++ r
      | none => "bad-op"
  | ["customdensity", hot, custom, dll] => match parseBool? hot, parseRat? custom, parseRat? dll with
      | some hot, some c, some d => showRat (customDensityHot hot c d)
      | _, _, _ => "bad-op"
  | ["thirdload", cont] => match parseList? parseContent? cont with
      | some cont => (match loadThird cont with
        | none => "reject"
        | some kept => showList (fun p => toString p.1.1 ++ ":" ++ toString p.1.2 ++ ":" ++ p.2) kept)
      | none => "bad-op"
  | ["firstthird", i, j] => match i.toInt?, j.toInt? with
      | some i, some j => showBool (inFirstThird (i, j)) ++ showBool (onOverlapLine (i, j))
      | _, _ => "bad-op"
  | ["numrings", n] => match n.toNat? with | some n => toString (numRings n) | none => "bad-op"
  | _ => "bad-op"

def main : IO Unit := loop answer
