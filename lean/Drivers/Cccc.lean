import ArmiVerif.Model.Proto
import ArmiVerif.Model.Cccc
open ArmiVerif ArmiVerif.Proto ArmiVerif.Cccc

/-
requests (one token per argument; `-` is the empty field list)
  recb FIELDS          framed binary record of the trace      -> hex | reject
  reca FIELDS          framed ASCII record of the trace        -> hex | reject
  decb KINDS HEX       read one framed binary record           -> count;fields;bytes-left | reject
  deca KINDS HEX       read one framed ASCII record (int/string fields only)
  matrix [shape]       flat C-order positions in call order    -> [..]
  bw m nintj nblok     getBlockBandwidth                        -> (jl,ju) | reject
  band jup jband       columns read for a row (jup = g + JJ)    -> [..]
  bandw ng jup jband   columns written (row = 0..ng-1)          -> [..]
  implicit HEXNAME     first letter implies integer             -> T|F
  afloat BITS64        " {:+.16E}".format of the double           -> hex | reject (inf/nan)
FIELDS := field(,field)*   field := iINT | lINT | fNAT(32-bit pattern) | dNAT(64-bit pattern) | sLEN:HEX
          in ASCII records f/d carry the 64-bit pattern of the Python float that is formatted
KINDS  := kind(,kind)*     kind := i | l | f | d | sLEN
-/

def hexDigit (n : Nat) : Char := if n < 10 then Char.ofNat (48 + n) else Char.ofNat (87 + n)

def toHex (bs : Bytes) : String :=
  if bs.isEmpty then "-" else
  bs.foldl (fun s b => (s.push (hexDigit (b.toNat / 16))).push (hexDigit (b.toNat % 16))) ""

def hexVal (c : Char) : Option Nat :=
  if '0' ≤ c ∧ c ≤ '9' then some (c.toNat - 48)
  else if 'a' ≤ c ∧ c ≤ 'f' then some (c.toNat - 87)
  else none

def fromHexAux : List Char → Bytes → Option Bytes
  | [], acc => some acc.reverse
  | [_], _ => none
  | a :: b :: rest, acc => match hexVal a, hexVal b with
    | some x, some y => fromHexAux rest (UInt8.ofNat (x * 16 + y) :: acc)
    | _, _ => none

def fromHex (s : String) : Option Bytes := if s = "-" then some [] else fromHexAux s.toList []

inductive Field where
  | i (v : Int) | l (v : Int) | f (n : Nat) | d (n : Nat) | s (len : Nat) (b : Bytes)

def parseField (t : String) : Option Field :=
  match t.toList with
  | 'i' :: r => (String.ofList r).toInt?.map Field.i
  | 'l' :: r => (String.ofList r).toInt?.map Field.l
  | 'f' :: r => (String.ofList r).toNat?.map Field.f
  | 'd' :: r => (String.ofList r).toNat?.map Field.d
  | 's' :: r => match (String.ofList r).splitOn ":" with
    | [n, h] => do let n ← n.toNat?; let b ← fromHex h; some (Field.s n b)
    | _ => none
  | _ => none

def parseFields (t : String) : Option (List Field) :=
  if t = "-" then some [] else (t.splitOn ",").mapM parseField

/-- ASCII real fields are written by the model; reading them back is a parameter (`parse`), absent here -/
def asciiFloat (declared : Nat) : Codec Nat := asciiReal (fun _ => none) declared

/-- the trace as a record body; `none` when a value is outside its routine's domain (struct.error) -/
def bodyB : List Field → Option (RW Unit)
  | [] => some (.done ())
  | .i v :: r => if -2147483648 ≤ v ∧ v < 2147483648 then (bodyB r).map (fun p => .prim int32 v (fun _ => p)) else none
  | .l v :: r => if -9223372036854775808 ≤ v ∧ v < 9223372036854775808 then (bodyB r).map (fun p => .prim int64 v (fun _ => p)) else none
  | .f n :: r => if n < 4294967296 then (bodyB r).map (fun p => .prim bits32 n (fun _ => p)) else none
  | .d n :: r => if n < 18446744073709551616 then (bodyB r).map (fun p => .prim bits64 n (fun _ => p)) else none
  | .s len b :: r => (bodyB r).map (fun p => .prim (str len) b (fun _ => p))

def bodyA : List Field → Option (RW Unit)
  | [] => some (.done ())
  | .i v :: r => (bodyA r).map (fun p => .prim asciiInt v (fun _ => p))
  | .l _ :: _ => none   -- the Ascii classes have no rwLong
  | .f n :: r => if (doubleParts n).isSome then (bodyA r).map (fun p => .prim (asciiFloat 4) n (fun _ => p)) else none
  | .d n :: r => if (doubleParts n).isSome then (bodyA r).map (fun p => .prim (asciiFloat 8) n (fun _ => p)) else none
  | .s len b :: r => (bodyA r).map (fun p => .prim (asciiStr len) b (fun _ => p))

inductive Val where
  | i (v : Int) | n (v : Nat) | s (b : Bytes)

def showVal : Val → String
  | .i v => toString v
  | .n v => toString v
  | .s b => "s" ++ toHex b

inductive Kind where
  | i | l | f | d | s (len : Nat)

def parseKind (t : String) : Option Kind :=
  match t.toList with
  | ['i'] => some .i
  | ['l'] => some .l
  | ['f'] => some .f
  | ['d'] => some .d
  | 's' :: n => (String.ofList n).toNat?.map Kind.s
  | _ => none

/-- a reading program that collects what it reads -/
def readerB : List Kind → List Val → RW (List Val)
  | [], acc => .done acc.reverse
  | .i :: r, acc => .prim int32 0 (fun x => readerB r (Val.i x :: acc))
  | .l :: r, acc => .prim int64 0 (fun x => readerB r (Val.i x :: acc))
  | .f :: r, acc => .prim bits32 0 (fun x => readerB r (Val.n x :: acc))
  | .d :: r, acc => .prim bits64 0 (fun x => readerB r (Val.n x :: acc))
  | .s len :: r, acc => .prim (str len) [] (fun x => readerB r (Val.s x :: acc))

/-- ASCII: integer and text fields only (reading reals back is a parameter of the model) -/
def readerA : List Kind → List Val → Option (RW (List Val))
  | [], acc => some (.done acc.reverse)
  | .i :: r, acc => if (readerA r []).isSome then
      some (.prim asciiInt 0 (fun x => (readerA r (Val.i x :: acc)).getD (.done []))) else none
  | .s len :: r, acc => if (readerA r []).isSome then
      some (.prim (asciiStr len) [] (fun x => (readerA r (Val.s x :: acc)).getD (.done []))) else none
  | _ :: _, _ => none

def kindsOf (t : String) : Option (List Kind) := if t = "-" then some [] else (t.splitOn ",").mapM parseKind

def decode (fr : Frame) (rd : Option (RW (List Val))) (hex : String) : String :=
  match rd, fromHex hex with
  | some p, some bs =>
    -- the count the record opened with is reported too
    match fr.count.dec bs with
    | none => "reject"
    | some (n, _) =>
      match (File.record p (fun vs => File.done vs)).read fr bs with
      | none => "reject"
      | some (vs, rest) => toString n ++ ";" ++ ",".intercalate (vs.map showVal) ++ ";" ++ toString rest.length
  | _, _ => "bad-op"

def encode (fr : Frame) (body : Option (RW Unit)) (countOk : Int → Bool) : String :=
  match body with
  | none => "reject"
  | some p =>
    if countOk (p.write.2.1 : Nat) then toHex ((File.record p (fun _ => File.done ())).write fr).1 else "reject"

def answer : List String → String
  | ["recb", fs] => match parseFields fs with
      | some l => encode binaryFrame (bodyB l) (fun n => n < 2147483648)
      | none => "bad-op"
  | ["reca", fs] => match parseFields fs with
      | some l => encode asciiFrame (bodyA l) (fun _ => true)
      | none => "bad-op"
  | ["decb", ks, hex] => decode binaryFrame ((kindsOf ks).map (fun k => readerB k [])) hex
  | ["deca", ks, hex] => decode asciiFrame ((kindsOf ks).bind (fun k => readerA k [])) hex
  | ["matrix", sh] => match parseNatList? sh with
      | some shape => showList toString ((matrixOrder shape).map (flatPos shape.reverse))
      | none => "bad-op"
  | ["bw", m, n, b] => match parseInt? m, parseInt? n, parseInt? b with
      | some m, some n, some b => match getBlockBandwidth m n b with
        | some (a, c) => "(" ++ toString a ++ "," ++ toString c ++ ")"
        | none => "reject"
      | _, _, _ => "bad-op"
  | ["band", jup, jb] => match parseNat? jup, parseNat? jb with
      | some jup, some jb => showList toString (bandCols jup jb)
      | _, _ => "bad-op"
  | ["bandw", ng, jup, jb] => match parseNat? ng, parseNat? jup, parseNat? jb with
      | some ng, some jup, some jb => showList toString (bandWrite (List.range ng) jup jb)
      | _, _, _ => "bad-op"
  | ["afloat", n] => match parseNat? n with
      | some n => if (doubleParts n).isSome then toHex (asciiRealField n) else "reject"
      | none => "bad-op"
  | ["implicit", h] => match fromHex h with
      | some (b :: _) => showBool (implicitInt (Char.ofNat b.toNat).toUpper)
      | _ => "bad-op"
  | _ => "bad-op"

def main : IO Unit := loop answer
