import ArmiVerif.Model.Proto
import ArmiVerif.Model.Cccc
open ArmiVerif ArmiVerif.Proto ArmiVerif.Cccc

/-
requests (one token per argument; `-` is the empty field list)
  recb FIELDS          framed binary record of the trace      -> hex | reject
  reca FIELDS          framed ASCII record of the trace        -> hex | reject
  decb KINDS HEX       read one framed binary record           -> count;fields;bytes-left | reject
  deca KINDS HEX       read one framed ASCII record (int/string fields only)
  matrix [shape]       flat C-order positions in call order    -> [..]
  bw m nintj nblok     getBlockBandwidth                        -> (jl,ju) | reject
  band jup jband       columns read for a row (jup = g + JJ)    -> [..]
  bandw ng jup jband   columns written (row = 0..ng-1)          -> [..]
  implicit HEXNAME     first letter implies integer             -> T|F
  afloat BITS64        " {:+.16E}".format of the double           -> hex | reject (inf/nan)
  schema FMT b|a ENV FIELDS   the whole file the format's schema (Model/Cccc.lean `Schema.byName`) writes for the
                       container values FIELDS (all records, in call order) and the values that are not in the
                       file ENV := -|name=INT(;name=INT)*           -> hex;values-left-over | reject | short
  revg ng g            container group index of file position g in an adjoint file      -> INT
  nrec chiFlag [ords]  records of one ISOTXS nuclide                                     -> NAT
  offs [counts]        ISOTXS record offsets                                            -> [..]
  scat ng [jup..] [jband..]   a whole scatter block with position-coded bands (row g, column c holds g*ng+c+1):
                       the 7D record (scatFlatten) and the matrix rebuilt from it (scatUnflatten)  -> [..];[[..],..]
  adjo [c..]           file order of an adjoint container's groups (adjointOrder)                -> [..]
  aparse HEXTEXT       Python float(text) for an E-format text (parseFloatText)          -> BITS64 | reject
  adom i INT | adom d BITS64   is the value inside the ASCII field's accepted domain (asciiInt.ok / asciiReal.ok) -> T|F
FIELDS := field(,field)*   field := iINT | lINT | fNAT(32-bit pattern) | dNAT(64-bit pattern) | sLEN:HEX
          in ASCII records f/d carry the 64-bit pattern of the Python float that is formatted
KINDS  := kind(,kind)*     kind := i | l | f | d | sLEN
-/

def hexDigit (n : Nat) : Char := if n < 10 then Char.ofNat (48 + n) else Char.ofNat (87 + n)

def toHex (bs : Bytes) : String :=
  if bs.isEmpty then "-" else
  bs.foldl (fun s b => (s.push (hexDigit (b.toNat / 16))).push (hexDigit (b.toNat % 16))) ""

def hexVal (c : Char) : Option Nat :=
  if '0' ≤ c ∧ c ≤ '9' then some (c.toNat - 48)
  else if 'a' ≤ c ∧ c ≤ 'f' then some (c.toNat - 87)
  else none

def fromHexAux : List Char → Bytes → Option Bytes
  | [], acc => some acc.reverse
  | [_], _ => none
  | a :: b :: rest, acc => match hexVal a, hexVal b with
    | some x, some y => fromHexAux rest (UInt8.ofNat (x * 16 + y) :: acc)
    | _, _ => none

def fromHex (s : String) : Option Bytes := if s = "-" then some [] else fromHexAux s.toList []

inductive Field where
  | i (v : Int) | l (v : Int) | f (n : Nat) | d (n : Nat) | s (len : Nat) (b : Bytes)

def parseField (t : String) : Option Field :=
  match t.toList with
  | 'i' :: r => (String.ofList r).toInt?.map Field.i
  | 'l' :: r => (String.ofList r).toInt?.map Field.l
  | 'f' :: r => (String.ofList r).toNat?.map Field.f
  | 'd' :: r => (String.ofList r).toNat?.map Field.d
  | 's' :: r => match (String.ofList r).splitOn ":" with
    | [n, h] => do let n ← n.toNat?; let b ← fromHex h; some (Field.s n b)
    | _ => none
  | _ => none

def parseFields (t : String) : Option (List Field) :=
  if t = "-" then some [] else (t.splitOn ",").mapM parseField

/-- ASCII real fields: written and read back by the model (`asciiRealM`: `format` and `float` both modelled) -/
def asciiFloat (declared : Nat) : Codec Nat := asciiRealM declared

/-- the trace as a record body; `none` when a value is outside its routine's domain (struct.error) -/
def bodyB : List Field → Option (RW Unit)
  | [] => some (.done ())
  | .i v :: r => if -2147483648 ≤ v ∧ v < 2147483648 then (bodyB r).map (fun p => .prim int32 v (fun _ => p)) else none
  | .l v :: r => if -9223372036854775808 ≤ v ∧ v < 9223372036854775808 then (bodyB r).map (fun p => .prim int64 v (fun _ => p)) else none
  | .f n :: r => if n < 4294967296 then (bodyB r).map (fun p => .prim bits32 n (fun _ => p)) else none
  | .d n :: r => if n < 18446744073709551616 then (bodyB r).map (fun p => .prim bits64 n (fun _ => p)) else none
  | .s len b :: r => (bodyB r).map (fun p => .prim (str len) b (fun _ => p))

def bodyA : List Field → Option (RW Unit)
  | [] => some (.done ())
  | .i v :: r => (bodyA r).map (fun p => .prim asciiInt v (fun _ => p))
  | .l _ :: _ => none   -- the Ascii classes have no rwLong
  | .f n :: r => if (doubleParts n).isSome then (bodyA r).map (fun p => .prim (asciiFloat 4) n (fun _ => p)) else none
  | .d n :: r => if (doubleParts n).isSome then (bodyA r).map (fun p => .prim (asciiFloat 8) n (fun _ => p)) else none
  | .s len b :: r => (bodyA r).map (fun p => .prim (asciiStr len) b (fun _ => p))

-- `Val` (an integer, a real's bit pattern, or text) is the model's `ArmiVerif.Cccc.Val`

def showVal : Val → String
  | .i v => toString v
  | .n v => toString v
  | .s b => "s" ++ toHex b

inductive Kind where
  | i | l | f | d | s (len : Nat)

def parseKind (t : String) : Option Kind :=
  match t.toList with
  | ['i'] => some .i
  | ['l'] => some .l
  | ['f'] => some .f
  | ['d'] => some .d
  | 's' :: n => (String.ofList n).toNat?.map Kind.s
  | _ => none

/-- a reading program that collects what it reads -/
def readerB : List Kind → List Val → RW (List Val)
  | [], acc => .done acc.reverse
  | .i :: r, acc => .prim int32 0 (fun x => readerB r (Val.i x :: acc))
  | .l :: r, acc => .prim int64 0 (fun x => readerB r (Val.i x :: acc))
  | .f :: r, acc => .prim bits32 0 (fun x => readerB r (Val.n x :: acc))
  | .d :: r, acc => .prim bits64 0 (fun x => readerB r (Val.n x :: acc))
  | .s len :: r, acc => .prim (str len) [] (fun x => readerB r (Val.s x :: acc))

/-- ASCII: integer, real and text fields (no `rwLong`) -/
def readerA : List Kind → List Val → Option (RW (List Val))
  | [], acc => some (.done acc.reverse)
  | .f :: r, acc => if (readerA r []).isSome then
      some (.prim (asciiRealM 4) 0 (fun x => (readerA r (Val.n x :: acc)).getD (.done []))) else none
  | .d :: r, acc => if (readerA r []).isSome then
      some (.prim (asciiRealM 8) 0 (fun x => (readerA r (Val.n x :: acc)).getD (.done []))) else none
  | .i :: r, acc => if (readerA r []).isSome then
      some (.prim asciiInt 0 (fun x => (readerA r (Val.i x :: acc)).getD (.done []))) else none
  | .s len :: r, acc => if (readerA r []).isSome then
      some (.prim (asciiStr len) [] (fun x => (readerA r (Val.s x :: acc)).getD (.done []))) else none
  | _ :: _, _ => none

def kindsOf (t : String) : Option (List Kind) := if t = "-" then some [] else (t.splitOn ",").mapM parseKind

def decode (fr : Frame) (rd : Option (RW (List Val))) (hex : String) : String :=
  match rd, fromHex hex with
  | some p, some bs =>
    -- the count the record opened with is reported too
    match fr.count.dec bs with
    | none => "reject"
    | some (n, _) =>
      match (File.record p (fun vs => File.done vs)).read fr bs with
      | none => "reject"
      | some (vs, rest) => toString n ++ ";" ++ ",".intercalate (vs.map showVal) ++ ";" ++ toString rest.length
  | _, _ => "bad-op"

def encode (fr : Frame) (body : Option (RW Unit)) (countOk : Int → Bool) : String :=
  match body with
  | none => "reject"
  | some p =>
    if countOk (p.write.2.1 : Nat) then toHex ((File.record p (fun _ => File.done ())).write fr).1 else "reject"

def fieldVal : Field → Val
  | .i v => .i v | .l v => .i v | .f n => .n n | .d n => .n n | .s _ b => .s b

/-- the values a routine of the given record class accepts (struct.error / AttributeError otherwise) -/
def fieldOk (ascii : Bool) : Field → Bool
  | .i v => ascii || (-2147483648 ≤ v ∧ v < 2147483648)
  | .l v => !ascii && (-9223372036854775808 ≤ v ∧ v < 9223372036854775808)
  | .f n => if ascii then (doubleParts n).isSome else n < 4294967296
  | .d n => if ascii then (doubleParts n).isSome else n < 18446744073709551616
  | .s _ _ => true

def parseEnv (t : String) : Option Env :=
  if t = "-" then some [] else
  (t.splitOn ";").mapM (fun kv => match kv.splitOn "=" with
    | [k, x] => x.toInt?.map (fun n => (k, n))
    | _ => none)

/-! guard for `schema`: walk the schema over the container's values WITHOUT building the program - one value per
field, integers bound exactly as `fldRW` binds them, file-level loop iterations scoped as in `loopF`. `none` when the
values run out or the walk exceeds its fuel (a count taken from a misplaced value would otherwise make the model write
billions of default fields). Only when the walk succeeds is the model's program built and run. -/
structure DSt where
  env : Env
  inp : List Val
  fuel : Nat

def dryFld (t : Ty) (key : Option String) (st : DSt) : Option DSt :=
  match st.inp, st.fuel with
  | [], _ => none
  | _, 0 => none
  | x :: rest, f + 1 =>
    let env := match t with
      | .i => bindInt st.env key x.int
      | .l => bindInt st.env key x.int
      | _ => st.env
    some { env := env, inp := rest, fuel := f }

def dryRep (t : Ty) (key : Option String) : Nat → Nat → DSt → Option DSt
  | 0, _, st => some st
  | n + 1, i, st => (dryFld t (key.map (fun x => key1 x i)) st).bind (dryRep t key n (i + 1))

def dryLoop (body : DSt → Option DSt) (x : String) : Nat → Nat → DSt → Option DSt
  | 0, _, st => some st
  | n + 1, i, st =>
    match st.fuel with
    | 0 => none
    | f + 1 => (body { st with env := bindLoop st.env x i, fuel := f }).bind (dryLoop body x n (i + 1))

def ArmiVerif.Cccc.Rec.dry : Rec → DSt → Option DSt
  | .nil, st => some st
  | .fld t b rest, st => (dryFld t (b.map (fun b => b.key st.env)) st).bind rest.dry
  | .rep n t b rest, st =>
    let k := (n.eval st.env).toNat
    if k > st.inp.length then none else (dryRep t b k 0 st).bind rest.dry
  | .strv _ rest, st => (dryFld (.s 0) none st).bind rest.dry
  | .opt c body rest, st => if c.eval st.env != 0 then (body.dry st).bind rest.dry else rest.dry st
  | .loop n x body rest, st => (dryLoop body.dry x (n.eval st.env).toNat 0 st).bind rest.dry

def dryLoopF (body : DSt → Option DSt) (x : String) : Nat → Nat → DSt → Option DSt
  | 0, _, st => some st
  | n + 1, i, st =>
    match st.fuel with
    | 0 => none
    | f + 1 =>
      (body { st with env := bindLoop st.env x i, fuel := f }).bind
        (fun st' => dryLoopF body x n (i + 1) { st' with env := st.env })

def ArmiVerif.Cccc.FileS.dry : FileS → DSt → Option DSt
  | .nil, st => some st
  | .one r rest, st => (r.dry st).bind rest.dry
  | .opt c body rest, st => if c.eval st.env != 0 then (body.dry st).bind rest.dry else rest.dry st
  | .loop n x body rest, st => (dryLoopF body.dry x (n.eval st.env).toNat 0 st).bind rest.dry

def schemaAnswer (fmt mode env fs : String) : String :=
  match Schema.byName fmt, parseEnv env, parseFields fs with
  | some s, some env0, some l =>
    let ascii := mode == "a"
    if mode != "a" && mode != "b" then "bad-op"
    else if !(l.all (fieldOk ascii)) || (ascii && s.usesLong) then "reject"
    else
      let vals := l.map fieldVal
      match s.dry { env := env0, inp := vals, fuel := 8 * vals.length + 20000 } with
      | none => "short"   -- the schema asks for more values than the container's trace holds
      | some _ =>
        let cs := if ascii then asciiCodecsM else binaryCodecs
        let fr := if ascii then asciiFrame else binaryFrame
        let w := (schemaFile cs s env0 vals).write fr
        toHex w.1 ++ ";" ++ toString w.2.2.2
  | _, _, _ => "bad-op"

def answer : List String → String
  | ["schema", fmt, mode, env, fs] => schemaAnswer fmt mode env fs
  | ["revg", ng, g] => match parseInt? ng, parseInt? g with
      | some ng, some g => toString (revGroup ng g)
      | _, _ => "bad-op"
  | ["nrec", c, os] => match parseInt? c, parseIntList? os with
      | some c, some os => toString (isotxsNumRecords c os)
      | _, _ => "bad-op"
  | ["offs", cs] => match parseNatList? cs with
      | some cs => showList toString (recordOffsets cs)
      | none => "bad-op"
  | ["adom", "i", x] => match parseInt? x with
      | some x => showBool (decide (-999999999 ≤ x ∧ x ≤ 999999999))
      | none => "bad-op"
  | ["adom", "d", n] => match parseNat? n with
      | some n => showBool (decide ((asciiRealM 8).ok n))
      | none => "bad-op"
  | ["scat", ng, jups, jbs] => match parseNat? ng, parseNatList? jups, parseNatList? jbs with
      | some ng, some jups, some jbs =>
        let table := jups.zip jbs
        let rows : List (List Nat × Nat × Nat) := (List.range table.length).zip table |>.map (fun (g, jup, jb) =>
          ((List.range ng).map (fun c => if jup - jb ≤ c ∧ c < jup then g * ng + c + 1 else 0), jup, jb))
        let flat := scatFlatten rows
        showList toString flat ++ ";" ++ showList (showList toString) (scatUnflatten 0 ng table flat)
      | _, _, _ => "bad-op"
  | ["adjo", c] => match parseIntList? c with
      | some c => showList toString (adjointOrder c 0)
      | none => "bad-op"
  | ["aparse", h] => match fromHex h with
      | some t => match parseFloatText t with
        | some n => toString n
        | none => "reject"
      | none => "bad-op"
  | ["recb", fs] => match parseFields fs with
      | some l => encode binaryFrame (bodyB l) (fun n => n < 2147483648)
      | none => "bad-op"
  | ["reca", fs] => match parseFields fs with
      | some l => encode asciiFrame (bodyA l) (fun _ => true)
      | none => "bad-op"
  | ["decb", ks, hex] => decode binaryFrame ((kindsOf ks).map (fun k => readerB k [])) hex
  | ["deca", ks, hex] => decode asciiFrame ((kindsOf ks).bind (fun k => readerA k [])) hex
  | ["matrix", sh] => match parseNatList? sh with
      | some shape => showList toString ((matrixOrder shape).map (flatPos shape.reverse))
      | none => "bad-op"
  | ["bw", m, n, b] => match parseInt? m, parseInt? n, parseInt? b with
      | some m, some n, some b => match getBlockBandwidth m n b with
        | some (a, c) => "(" ++ toString a ++ "," ++ toString c ++ ")"
        | none => "reject"
      | _, _, _ => "bad-op"
  | ["band", jup, jb] => match parseNat? jup, parseNat? jb with
      | some jup, some jb => showList toString (bandCols jup jb)
      | _, _ => "bad-op"
  | ["bandw", ng, jup, jb] => match parseNat? ng, parseNat? jup, parseNat? jb with
      | some ng, some jup, some jb => showList toString (bandWrite (List.range ng) jup jb)
      | _, _, _ => "bad-op"
  | ["afloat", n] => match parseNat? n with
      | some n => if (doubleParts n).isSome then toHex (asciiRealField n) else "reject"
      | none => "bad-op"
  | ["implicit", h] => match fromHex h with
      | some (b :: _) => showBool (implicitInt (Char.ofNat b.toNat).toUpper)
      | _ => "bad-op"
  | _ => "bad-op"

def main : IO Unit := loop answer
