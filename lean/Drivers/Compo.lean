import ArmiVerif.Model.Proto
import ArmiVerif.Model.Compo
open ArmiVerif ArmiVerif.Proto ArmiVerif.Compo

/-
Stateful session (one core tree + physical constants).
build:
  new                                   empty core (symmetry 1, volume = sum of assemblies)
  phys <K> <barn> [nuc..] [aw..]        constants and atomic weights (nuclides are numbered by the harness)
  assem <sym> [blockAreas] [blockHeights]   append an assembly; coded volume = first area × Σ heights
  block <sym>                           append a block to the last assembly
  comp <vol> <psym> [nuc..] [nd..]      append a component to the last block
paths: []=core [i]=assembly [i,j]=block [i,j,k]=component
selections: elements [sym..] [[iso..],..]   masssel <path> [name..]   massfracsel <path> [name..]
queries:  snap <path> [nuc..]  -> [vol,density,massTotal,nd..,mass..]      nucs <path> -> sorted nuclides
          massfracs <path> [nuc..]    atoms <path> <nuc>    volfracs <path>
edits (answer ok | reject):
  setnd <path> <nuc> <v>   upd <path> [nuc..] [v..]   setnds <path> [nuc..] [v..]   scale <path> <f>
  addmass <path> <nuc> <m>   setmass <path> <nuc> <m>   setmf <path> [nuc..] [f..]
  addmasses <path> [nuc..] [m..]   setmasses <path> <traceDensity> [nuc..] [m..]
  adjustmf <path> [adjustNames] [holdNames] <val>      adjustMassFrac (names = nucDir.getNuclideNames of the two specs)
  adjustdict <path> [adjustNames] [holdNames] <val> -> [[nuc,frac],..] | reject    the dict handed to setMassFracs
component density (material fallback on the empty composition):  compdensity <matDensity> <isVoid T|F> [nuc..] [nd..]
derived shape:  derived <maxArea> <height> [sibVols] [sibAreas] -> [vol,area]|reject   derivedat <maxArea> [sibAreas]
                hexmaxarea <sqrt3> <pitch>
symmetry factor: hexsym <hasGridSymmetry T|F> <thirdPeriodic T|F> <i> <j> <upperEdgePresent T|F> -> 1|2|3
arbitrary depth:  tree <tree> [nuc..] -> [vol, nd.., mass.., leafAtoms..]   tree := L;vol;psym;[nuc..];[nd..] | [sym,tree,..]
stateless conversions:
  ndfrommasses <rho> [nuc..] [mf..] -> [nd..]    massfractions [nuc..] [nd..] -> [mf..]
  massdensity [nuc..] [nd..]   numberdensity <nuc> <mass> <vol> -> v|reject   massingrams <nuc> <vol> <nd>
-/

structure St where
  K : Rat := 1
  barn : Rat := 1
  aw : Array Rat := #[]
  core : Core := { sym := 1, volCoded := none, kids := [] }
  elem : List (Nat × List Nat) := []

def St.elemTable (s : St) : ElemTable := fun n => (s.elem.find? (fun p => p.1 = n)).map (·.2)

def St.phys (s : St) : Phys :=
  { K := s.K, barn := s.barn, aw := fun n => s.aw.getD n 0 }

def modifyNth {α : Type} (l : List α) (i : Nat) (f : α → Option α) : Option (List α) :=
  match l[i]? with
  | none => none
  | some a => (f a).map (fun a' => l.set i a')

/-- apply an edit at a path: `fC` at component level, the generic `fG` at every composite level -/
def editAt (ph : Phys) (core : Core) (path : List Nat) (fC : Comp → Option Comp)
    (fG : ∀ {β : Type}, Ops β → β → Option β) : Option Core :=
  match path with
  | [] => fG (coreOps ph) core
  | [i] => (modifyNth core.kids i (fG (assemOps ph))).map (fun k => { core with kids := k })
  | [i, j] => (modifyNth core.kids i (fun a =>
      (modifyNth a.kids j (fG (blockOps ph))).map (fun k => { a with kids := k }))).map
        (fun k => { core with kids := k })
  | [i, j, k] => (modifyNth core.kids i (fun a =>
      (modifyNth a.kids j (fun b =>
        (modifyNth b.kids k fC).map (fun k => { b with kids := k }))).map (fun k => { a with kids := k }))).map
        (fun k => { core with kids := k })
  | _ => none

def queryAt (ph : Phys) (core : Core) (path : List Nat) (q : ∀ {β : Type}, Ops β → β → String) : String :=
  match path with
  | [] => q (coreOps ph) core
  | [i] => match core.kids[i]? with | some a => q (assemOps ph) a | none => "bad-op"
  | [i, j] => match core.kids[i]? >>= (·.kids[j]?) with | some b => q (blockOps ph) b | none => "bad-op"
  | [i, j, k] => match core.kids[i]? >>= (·.kids[j]?) >>= (·.kids[k]?) with
      | some c => q (compOps ph) c | none => "bad-op"
  | _ => "bad-op"

def guard' {β : Type} (ok : Bool) (b : β) : Option β := if ok then some b else none

def insertSorted (n : Nat) : List Nat → List Nat
  | [] => [n]
  | m :: l => if n ≤ m then n :: m :: l else m :: insertSorted n l
def sortNat (l : List Nat) : List Nat := l.foldr insertSorted []

def zipND (ns : List Nat) (vs : List Rat) : Option NDens :=
  if ns.length = vs.length then some (ns.zip vs) else none

/-- tree := `L;vol;psym;[nuc..];[nd..]` | `[sym,tree,tree,..]` (any depth) -/
partial def parseTree? (s : String) : Option Tree :=
  if s.startsWith "[" then
    match splitTop s with
    | some (sym :: kids) => do
      let sym ← parseRat? sym
      let ks ← kids.mapM parseTree?
      some (.node sym ks)
    | _ => none
  else
    match s.splitOn ";" with
    | ["L", v, ps, ns, ds] => do
      let v ← parseRat? v
      let ps ← parseRat? ps
      let ns ← parseNatList? ns
      let ds ← parseRatList? ds
      let nd ← zipND ns ds
      some (.leaf { vol := v, psym := ps, nd := NDens.update [] nd })
    | _ => none

/-- what a refused `adjustMassFrac` leaves behind: nothing changed when the dict computation raises, the applied
prefix when `setMassFracs` raises -/
def adjustPrefix {β : Type} (o : Ops β) (ph : Phys) (a : β) (adj hold : List Nat) (val : Rat) : Option β :=
  match adjustDict o ph a adj hold val with
  | none => some a
  | some d => some (setMassFracsPrefix o ph a d)

def step (s : St) (ws : List String) : St × String :=
  let ph := s.phys
  let edit (path : String) (fC : Comp → Option Comp) (fG : ∀ {β : Type}, Ops β → β → Option β) : St × String :=
    match parseNatList? path with
    | none => (s, "bad-op")
    | some p =>
      if p.length > 3 then (s, "bad-op") else
      match editAt ph s.core p fC fG with
      | some c => ({ s with core := c }, "ok")
      | none => (s, "reject")
  match ws with
  | ["new"] => ({ s with core := { sym := 1, volCoded := none, kids := [] } }, "ok")
  | ["phys", k, b, ns, ws] =>
    match parseRat? k, parseRat? b, parseNatList? ns, parseRatList? ws with
    | some k, some b, some ns, some ws =>
      if ns.length = ws.length then
        let size := (ns.foldl max 0) + 1
        let arr := (ns.zip ws).foldl (fun (a : Array Rat) p => a.setIfInBounds p.1 p.2) (Array.replicate size 0)
        ({ s with K := k, barn := b, aw := arr }, "ok")
      else (s, "bad-op")
    | _, _, _, _ => (s, "bad-op")
  | ["assem", sym, areas, hs] =>
    match parseRat? sym, parseRatList? areas, parseRatList? hs with
    | some sym, some areas, some hs =>
      let a : Assem := { sym := sym, volCoded := some (assemblyVolume areas hs), kids := [] }
      ({ s with core := { s.core with kids := s.core.kids ++ [a] } }, "ok")
    | _, _, _ => (s, "bad-op")
  | ["block", sym] =>
    match parseRat? sym, s.core.kids.reverse with
    | some sym, a :: rest =>
      let b : Block := { sym := sym, volCoded := none, kids := [] }
      ({ s with core := { s.core with kids := (({ a with kids := a.kids ++ [b] } : Assem) :: rest).reverse } }, "ok")
    | _, _ => (s, "bad-op")
  | ["comp", vol, psym, ns, vs] =>
    match parseRat? vol, parseRat? psym, parseNatList? ns, parseRatList? vs, s.core.kids.reverse with
    | some vol, some psym, some ns, some vs, a :: rest =>
      match a.kids.reverse, zipND ns vs with
      | b :: brest, some nd =>
        let c : Comp := { vol := vol, psym := psym, nd := nd }
        let b' : Block := { b with kids := b.kids ++ [c] }
        let a' : Assem := { a with kids := (b' :: brest).reverse }
        ({ s with core := { s.core with kids := (a' :: rest).reverse } }, "ok")
      | _, _ => (s, "bad-op")
    | _, _, _, _, _ => (s, "bad-op")
  | ["elements", syms, isos] =>
    match parseNatList? syms, parseList? parseNatList? isos with
    | some syms, some isos =>
      if syms.length = isos.length then ({ s with elem := syms.zip isos }, "ok") else (s, "bad-op")
    | _, _ => (s, "bad-op")
  -- queries
  | ["masssel", path, spec] =>
    match parseNatList? path, parseNatList? spec with
    | some [], some spec => (s, showRat (coreMassSel ph s.elemTable s.core spec))
    | some [i], some spec => match s.core.kids[i]? with
        | some a => (s, showRat (assemMassSel ph s.elemTable a spec)) | none => (s, "bad-op")
    | some [i, j], some spec => match s.core.kids[i]? >>= (·.kids[j]?) with
        | some b => (s, showRat (blockMassSel ph s.elemTable b spec)) | none => (s, "bad-op")
    | some [i, j, k], some spec => match s.core.kids[i]? >>= (·.kids[j]?) >>= (·.kids[k]?) with
        | some c => (s, showRat (c.massSel ph s.elemTable spec)) | none => (s, "bad-op")
    | _, _ => (s, "bad-op")
  | ["massfracsel", path, spec] =>
    match parseNatList? path, parseNatList? spec with
    | some p, some spec => (s, queryAt ph s.core p (fun o a => showRat (massFracSel o ph s.elemTable a spec)))
    | _, _ => (s, "bad-op")
  | ["snap", path, ns] =>
    match parseNatList? path, parseNatList? ns with
    | some p, some ns =>
      (s, queryAt ph s.core p (fun o a =>
        showList showRat ([o.vol a, density o ph a, massTotal o a] ++ ns.map (o.nd a) ++ ns.map (o.mass a))))
    | _, _ => (s, "bad-op")
  | ["nucs", path] =>
    match parseNatList? path with
    | some p => (s, queryAt ph s.core p (fun o a => showList toString (sortNat (dedup (o.nucs a)))))
    | _ => (s, "bad-op")
  | ["massfracs", path, ns] =>
    match parseNatList? path, parseNatList? ns with
    | some p, some ns =>
      (s, queryAt ph s.core p (fun o a => showList showRat (ns.map (NDens.get (massFracs o ph a)))))
    | _, _ => (s, "bad-op")
  | ["atoms", path, n] =>
    match parseNatList? path, parseNat? n with
    | some p, some n => (s, queryAt ph s.core p (fun o a => showRat (numberOfAtoms o ph a n)))
    | _, _ => (s, "bad-op")
  | ["volfracs", path] =>
    match parseNatList? path with
    | some [] => (s, showList showRat (s.core.kids.map (s.core.volFrac (assemOps ph))))
    | some [i] => match s.core.kids[i]? with
        | some a => (s, showList showRat (a.kids.map (a.volFrac (blockOps ph)))) | none => (s, "bad-op")
    | some [i, j] => match s.core.kids[i]? >>= (·.kids[j]?) with
        | some b => (s, showList showRat (b.kids.map (b.volFrac (compOps ph)))) | none => (s, "bad-op")
    | _ => (s, "bad-op")
  -- edits
  | ["setnd", path, n, v] =>
    match parseNat? n, parseRat? v with
    | some n, some v =>
      edit path (fun c => some ((compOps ph).setND c n v)) (fun o a => guard' (o.canSet a n v) (o.setND a n v))
    | _, _ => (s, "bad-op")
  | ["upd", path, ns, vs] =>
    match parseNatList? ns, parseRatList? vs with
    | some ns, some vs =>
      match zipND ns vs with
      | some d => edit path (fun c => some ((compOps ph).upd c d)) (fun o a => guard' (o.canUpd a d) (o.upd a d))
      | none => (s, "bad-op")
    | _, _ => (s, "bad-op")
  | ["setnds", path, ns, vs] =>
    match parseNatList? ns, parseRatList? vs with
    | some ns, some vs =>
      match zipND ns vs with
      | some d => edit path (fun c => some (c.setNDs d)) (fun o a => guard' (canSetNDs o a d) (setNDs o a d))
      | none => (s, "bad-op")
    | _, _ => (s, "bad-op")
  | ["scale", path, f] =>
    match parseRat? f with
    | some f => edit path (fun c => some (c.scale f)) (fun o a => guard' (canScale o a f) (scale o a f))
    | _ => (s, "bad-op")
  | ["addmass", path, n, m] =>
    match parseNat? n, parseRat? m with
    | some n, some m =>
      edit path (fun c => guard' (c.canAddMass ph n m) (c.addMass ph n m))
        (fun o a => guard' (canAddMass o ph a n m) (addMass o ph a n m))
    | _, _ => (s, "bad-op")
  | ["setmass", path, n, m] =>
    match parseNat? n, parseRat? m with
    | some n, some m =>
      edit path (fun c => guard' (c.canSetMass ph n m) (c.setMass ph n m))
        (fun o a => guard' (canSetMass o ph a n m) (setMass o ph a n m))
    | _, _ => (s, "bad-op")
  | ["addmasses", path, ns, ms] =>
    match parseNatList? path, parseNatList? ns, parseRatList? ms with
    | some p, some ns, some ms =>
      match zipND ns ms with
      | some d =>
        -- a refused call keeps what the earlier addMass calls did
        let run : Bool → Option Core := fun wantOk => editAt ph s.core p
          (fun c => let r := addMassesWith (fun c n m => c.canAddMass ph n m) (fun c n m => c.addMass ph n m) c d
                    if r.2 = wantOk then some r.1 else none)
          (fun o a => let r := addMassesWith (fun a n m => canAddMass o ph a n m) (fun a n m => addMass o ph a n m) a d
                      if r.2 = wantOk then some r.1 else none)
        match run true with
        | some c => ({ s with core := c }, "ok")
        | none => match run false with
          | some c => ({ s with core := c }, "reject")
          | none => (s, "bad-op")
      | none => (s, "bad-op")
    | _, _, _ => (s, "bad-op")
  | ["setmasses", path, tr, ns, ms] =>
    match parseNatList? path, parseRat? tr, parseNatList? ns, parseRatList? ms with
    | some p, some tr, some ns, some ms =>
      match zipND ns ms with
      | some d =>
        let run : Bool → Option Core := fun wantOk => editAt ph s.core p
          (fun c => let r := setMassesWith (Comp.clearNDs tr) (fun c n m => c.canSetMass ph n m) (fun c n m => c.setMass ph n m) c d
                    if r.2 = wantOk then some r.1 else none)
          (fun o a => let r := setMassesWith (clearNDs o tr) (fun a n m => canSetMass o ph a n m) (fun a n m => setMass o ph a n m) a d
                      if r.2 = wantOk then some r.1 else none)
        match run true with
        | some c => ({ s with core := c }, "ok")
        | none => match run false with
          | some c => ({ s with core := c }, "reject")
          | none => (s, "bad-op")
      | none => (s, "bad-op")
    | _, _, _, _ => (s, "bad-op")
  | ["setmf", path, ns, fs] =>
    match parseNatList? ns, parseRatList? fs with
    | some ns, some fs =>
      match zipND ns fs with
      | some mf =>
        -- a refused call keeps what it had already applied (`setMassFracsPrefix`)
        match parseNatList? path with
        | none => (s, "bad-op")
        | some p =>
          let accepted := editAt ph s.core p
            (fun c => guard' (canSetMassFracs (compOps ph) ph c mf) (setMassFracs (compOps ph) ph c mf))
            (fun o a => guard' (canSetMassFracs o ph a mf) (setMassFracs o ph a mf))
          match accepted with
          | some c => ({ s with core := c }, "ok")
          | none =>
            match editAt ph s.core p (fun c => some (setMassFracsPrefix (compOps ph) ph c mf))
                (fun o a => some (setMassFracsPrefix o ph a mf)) with
            | some c => ({ s with core := c }, "reject")
            | none => (s, "bad-op")
      | none => (s, "bad-op")
    | _, _ => (s, "bad-op")
  | ["adjustmf", path, adj, hold, val] =>
    match parseNatList? path, parseNatList? adj, parseNatList? hold, parseRat? val with
    | some p, some adj, some hold, some val =>
      let accepted := editAt ph s.core p
        (fun c => adjustMassFrac (compOps ph) ph c adj hold val)
        (fun o a => adjustMassFrac o ph a adj hold val)
      match accepted with
      | some c => ({ s with core := c }, "ok")
      | none =>
        -- refused: by the dict computation (nothing changed) or inside setMassFracs (prefix applied)
        match editAt ph s.core p (fun c => adjustPrefix (compOps ph) ph c adj hold val)
            (fun o a => adjustPrefix o ph a adj hold val) with
        | some c => ({ s with core := c }, "reject")
        | none => (s, "bad-op")
    | _, _, _, _ => (s, "bad-op")
  | ["adjustdict", path, adj, hold, val] =>
    match parseNatList? path, parseNatList? adj, parseNatList? hold, parseRat? val with
    | some p, some adj, some hold, some val =>
      (s, queryAt ph s.core p (fun o a => match adjustDict o ph a adj hold val with
        | none => "reject"
        | some d => showList (fun q => "[" ++ toString q.1 ++ "," ++ showRat q.2 ++ "]") d))
    | _, _, _, _ => (s, "bad-op")
  -- stateless conversions (densityTools)
  | ["ndfrommasses", rho, ns, fs] =>
    match parseRat? rho, parseNatList? ns, parseRatList? fs with
    | some rho, some ns, some fs =>
      match zipND ns fs with
      | some mf => (s, showList showRat ((getNDensFromMasses ph rho mf).map (·.2)))
      | none => (s, "bad-op")
    | _, _, _ => (s, "bad-op")
  | ["massfractions", ns, vs] =>
    match parseNatList? ns, parseRatList? vs with
    | some ns, some vs =>
      match zipND ns vs with
      | some d => (s, showList showRat ((getMassFractions ph d).map (·.2)))
      | none => (s, "bad-op")
    | _, _ => (s, "bad-op")
  | ["massdensity", ns, vs] =>
    match parseNatList? ns, parseRatList? vs with
    | some ns, some vs =>
      match zipND ns vs with
      | some d => (s, showRat (calculateMassDensity ph d))
      | none => (s, "bad-op")
    | _, _ => (s, "bad-op")
  | ["numberdensity", n, m, v] =>
    match parseNat? n, parseRat? m, parseRat? v with
    | some n, some m, some v =>
      (s, if canCalculateNumberDensity ph n m v then showRat (calculateNumberDensity ph n m v) else "reject")
    | _, _, _ => (s, "bad-op")
  | ["massingrams", n, v, d] =>
    match parseNat? n, parseRat? v, parseRat? d with
    | some n, some v, some d => (s, showRat (getMassInGrams ph n v d))
    | _, _, _ => (s, "bad-op")
  | ["compdensity", md, void, ns, vs] =>
    match parseRat? md, parseBool? void, parseNatList? ns, parseRatList? vs with
    | some md, some void, some ns, some vs =>
      match zipND ns vs with
      | some d => (s, showRat (Comp.density ph md void { vol := 0, psym := 1, nd := d }))
      | none => (s, "bad-op")
    | _, _, _, _ => (s, "bad-op")
  | ["derived", a, h, vs, as] =>
    match parseRat? a, parseRat? h, parseRatList? vs, parseRatList? as with
    | some a, some h, some vs, some as =>
      (s, match deriveVolumeAndArea a h vs as with
          | some (v, ar) => showList showRat [v, ar]
          | none => "reject")
    | _, _, _, _ => (s, "bad-op")
  | ["derivedat", a, as] =>
    match parseRat? a, parseRatList? as with
    | some a, some as => (s, showRat (derivedAreaAt a as))
    | _, _ => (s, "bad-op")
  | ["tree", t, ns] =>
    match parseTree? t, parseNatList? ns with
    | some t, some ns =>
      (s, showList showRat (t.vol :: (ns.map (fun n => t.nd n) ++ ns.map (fun n => t.mass ph n)
        ++ ns.map (fun n => t.leafAtoms n))))
    | _, _ => (s, "bad-op")
  | ["hexsym", g, t, i, j, u] =>
    match parseBool? g, parseBool? t, parseInt? i, parseInt? j, parseBool? u with
    | some g, some t, some i, some j, some u => (s, showRat (hexBlockSymmetryFactor g t i j u))
    | _, _, _, _, _ => (s, "bad-op")
  | ["hexmaxarea", q, pch] =>
    match parseRat? q, parseRat? pch with
    | some q, some pch => (s, showRat (hexMaxArea q pch))
    | _, _ => (s, "bad-op")
  | _ => (s, "bad-op")

def main : IO Unit := loopState ({} : St) step
