import ArmiVerif.Model.Proto
import ArmiVerif.Model.Grid
open ArmiVerif ArmiVerif.Proto ArmiVerif.Grid

/-
Requests (one per line):
  cartringpos T|F i j            cartposinring T|F r        cartminrings T|F n      carttotal T|F r
  cartequiv domain rot through i j                          cartindomain T|F i j
  <op> ARGS [i,j,k]      with op in coords|base|top        ARGS = unitSteps bounds limits offset geom sym
  axialonly ARGS         indexbounds ARGS       reduce ARGS       rebuild ARGS
  hexpitch s3 newPitch ARGS [i,j,k]             cartpitch xw yw ARGS [i,j,k]
  getlabel [i,j(,k)]     labelidx L<label>        (Grid.getLabel / locatorLabelToIndices; labels over digits and '-')
  global LOC LOC ...     complete LOC (LOC | _)     completechain LOC LOC ...    addingvalid LOC LOC
  globalTN T|F LOCT ...  (getGlobalCoordinates(nativeCoords))
  globalT LOCT LOCT ...  LOCT = LOC | T tau cos sin ARGS [i,j,k]   (index locator of a ThetaRZGrid)
  LOC = I ARGS [i,j,k] | ID [i,j,k] | C [x,y,z] | CG ARGS [x,y,z]
unitSteps = [row,row,row], row = [a,b,c] | scalar;  bounds = [_|[..],_|[..],_|[..]];
limits = [[a,b],[c,d],[e,f]];  offset = _ | [x,y,z];  geom, sym = 's' ++ text with '+' for ' '.
-/

def parseRow? (s : String) : Option Row :=
  if s.startsWith "[" then (parseRatList? s).map Row.vec else (parseRat? s).map Row.scalar

def parseOptRatList? (s : String) : Option (Option (List Rat)) :=
  if s = "_" then some none else (parseRatList? s).map some

def parsePair? (s : String) : Option (Int × Int) :=
  match parseIntList? s with
  | some [a, b] => some (a, b)
  | _ => none

def parseArgs? (u b l o g s : String) : Option Args := do
  let us ← parseList? parseRow? u
  let bs ← parseList? parseOptRatList? b
  let ls ← parseList? parsePair? l
  let off ← parseOptRatList? o
  some { unitSteps := us, bounds := bs, limits := ls, offset := off, geom := g, sym := s }

def showRats (l : List Rat) : String := showList showRat l

def showRow : Row → String
  | .vec v => showRats v
  | .scalar q => showRat q

def showOptRats : Option (List Rat) → String
  | none => "_"
  | some l => showRats l

def showArgs (a : Args) : String :=
  " ".intercalate [showList showRow a.unitSteps, showList showOptRats a.bounds,
    showList (fun (p : Int × Int) => "[" ++ toString p.1 ++ "," ++ toString p.2 ++ "]") a.limits,
    showOptRats a.offset, a.geom, a.sym]

def showSteps : Steps → String
  | .flat v => "F" ++ showRats v
  | .mat m => "M" ++ showList showRats m

def showG (g : G) : String :=
  " ".intercalate [showSteps g.steps, showList showOptRats g.bounds,
    showList (fun (p : Int × Int) => "[" ++ toString p.1 ++ "," ++ toString p.2 ++ "]") g.limits,
    showRats g.offset, g.geom, g.sym]

/-- parse one LOC from the token stream, returning the rest -/
def parseLoc? : List String → Option (Loc × List String)
  | "I" :: u :: b :: l :: o :: g :: s :: idx :: rest => do
    let a ← parseArgs? u b l o g s
    let gr ← build a
    match ← parseIntList? idx with
    | [i, j, k] => some (.index (some gr) i j k, rest)
    | _ => none
  | "ID" :: idx :: rest => do
    match ← parseIntList? idx with
    | [i, j, k] => some (.index none i j k, rest)
    | _ => none
  | "C" :: xyz :: rest => do
    match ← parseRatList? xyz with
    | [x, y, z] => some (.coord none x y z, rest)
    | _ => none
  | "CG" :: u :: b :: l :: o :: g :: s :: xyz :: rest => do
    let a ← parseArgs? u b l o g s
    let gr ← build a
    match ← parseRatList? xyz with
    | [x, y, z] => some (.coord (some gr) x y z, rest)
    | _ => none
  | _ => none

/-- LOC or `T tau cs sn ARGS [i,j,k]` (index locator in a ThetaRZGrid) -/
def parseLocT? : List String → Option (LocT × List String)
  | "T" :: tau :: cs :: sn :: u :: b :: l :: o :: g :: s :: idx :: rest => do
    let tau ← parseRat? tau
    let cs ← parseRat? cs
    let sn ← parseRat? sn
    let a ← parseArgs? u b l o g s
    let gr ← build a
    match ← parseIntList? idx with
    | [i, j, k] => some (.trz tau cs sn gr i j k, rest)
    | _ => none
  | ts => (parseLoc? ts).map (fun (p : Loc × List String) => (LocT.plain p.1, p.2))

partial def parseLocsT? (ts : List String) : Option (List LocT) :=
  if ts.isEmpty then some [] else do
    let (l, rest) ← parseLocT? ts
    let more ← parseLocsT? rest
    some (l :: more)

partial def parseLocs? (ts : List String) : Option (List Loc) :=
  if ts.isEmpty then some [] else do
    let (l, rest) ← parseLoc? ts
    let more ← parseLocs? rest
    some (l :: more)

def withGrid (u b l o g s : String) (k : G → String) : String :=
  match parseArgs? u b l o g s with
  | none => "bad-op"
  | some a => match build a with
    | none => "reject"
    | some gr => k gr

/-- mutation tokens: H:s3:p  C:xw:yw  O:[x,y,z]  B  R -/
def parseMut? (t : String) : Option Mut :=
  match t.splitOn ":" with
  | ["H", a, b] => do let a ← parseRat? a; let b ← parseRat? b; some (.hexPitch a b)
  | ["C", a, b] => do let a ← parseRat? a; let b ← parseRat? b; some (.cartPitch a b)
  | ["O", o] => (parseRatList? o).map Mut.setOffset
  | ["B"] => some .backUp
  | ["R"] => some .restore
  | _ => none

def symOfChar (c : Char) : Sym :=
  if c = '-' then .dash else if c.isDigit then .dig (c.toNat - 48) else .other

def charOfSym : Sym → Char
  | .dash => '-'
  | .dig d => Char.ofNat (48 + d)
  | .other => '?'

def showOptInt : Option Int → String
  | none => "None"
  | some v => toString v

def answer : List String → String
  | ["getlabel", idx] => match parseIntList? idx with
      | some ix => showOpt (fun l => "L" ++ String.ofList (l.map charOfSym)) (getLabel ix)
      | none => "bad-op"
  | ["labelidx", lab] =>
      -- the label is sent with a leading 'L' so that the empty label is a token
      if lab.startsWith "L" then
        showOpt (showList showOptInt) (labelToIndices ((lab.toList.drop 1).map symOfChar))
      else "bad-op"
  | ["cartringpos", t, i, j] => match parseBool? t, parseInt? i, parseInt? j with
      | some t, some i, some j => showPair (cartRingPos t i j)
      | _, _, _ => "bad-op"
  | ["cartposinring", t, r] => match parseBool? t, parseInt? r with
      | some t, some r => toString (cartPositionsInRing t r)
      | _, _ => "bad-op"
  | ["cartminrings", t, n] => match parseBool? t, parseInt? n with
      | some t, some n => toString (cartMinRings t n)
      | _, _ => "bad-op"
  | ["carttotal", t, r] => match parseBool? t, parseInt? r with
      | some t, some r => toString (cartTotal t r)
      | _, _ => "bad-op"
  | ["cartequiv", d, r, t, i, j] =>
      match parseNat? d, parseBool? r, parseBool? t, parseInt? i, parseInt? j with
      | some d, some r, some t, some i, some j => showOpt (showList showPair) (cartEquivalents d r t i j)
      | _, _, _, _, _ => "bad-op"
  | ["cartequiv3", d, r, t, i, j, k] =>
      match parseNat? d, parseBool? r, parseBool? t, parseInt? i, parseInt? j, parseInt? k with
      | some d, some r, some t, some i, some j, some k => showOpt (showList showPair) (cartEquivalentsK d r t (i, j, k))
      | _, _, _, _, _, _ => "bad-op"
  | ["cartindomain", q, i, j] => match parseBool? q, parseInt? i, parseInt? j with
      | some q, some i, some j => showBool (cartInDomain q i j)
      | _, _, _ => "bad-op"
  | [op, u, b, l, o, g, s, idx] =>
      if op = "coords" ∨ op = "base" ∨ op = "top" then
        match parseIntList? idx with
        | none => "bad-op"
        | some ix => withGrid u b l o g s (fun gr =>
            showOpt showRats (if op = "coords" then getCoordinates gr ix
                              else if op = "base" then getCellBase gr ix else getCellTop gr ix))
      else "bad-op"
  | ["axialonly", u, b, l, o, g, s] => withGrid u b l o g s (fun gr => showBool (isAxialOnly gr))
  | ["indexbounds", u, b, l, o, g, s] => withGrid u b l o g s (fun gr =>
      showList (fun (p : Int × Int) => "[" ++ toString p.1 ++ "," ++ toString p.2 ++ "]") (indexBounds gr))
  | ["state", u, b, l, o, g, s] => withGrid u b l o g s showG
  | ["reduce", u, b, l, o, g, s] => withGrid u b l o g s (fun gr => showOpt showArgs (reduce gr))
  | ["rebuild", u, b, l, o, g, s] => withGrid u b l o g s (fun gr =>
      match reduce gr with
      | none => "reject"
      | some a => showOpt showG (build a))
  | ["hexpitch", s3, p, u, b, l, o, g, s, idx] =>
      match parseRat? s3, parseRat? p, parseIntList? idx with
      | some s3, some p, some ix => withGrid u b l o g s (fun gr =>
          showOpt showRats ((hexChangePitch s3 p gr).bind (fun g2 => getCoordinates g2 ix)))
      | _, _, _ => "bad-op"
  | ["cartpitch", xw, yw, u, b, l, o, g, s, idx] =>
      match parseRat? xw, parseRat? yw, parseIntList? idx with
      | some xw, some yw, some ix => withGrid u b l o g s (fun gr =>
          showOpt showRats ((cartChangePitch xw yw gr).bind (fun g2 => getCoordinates g2 ix)))
      | _, _, _ => "bad-op"
  | ["hexpitchseq", s3, ps, u, b, l, o, g, s, idx] =>
      match parseRat? s3, parseRatList? ps, parseIntList? idx with
      | some s3, some ps, some ix => withGrid u b l o g s (fun gr =>
          showOpt showRats ((hexChangePitchSeq s3 ps gr).bind (fun g2 => getCoordinates g2 ix)))
      | _, _, _ => "bad-op"
  | ["cartpitchseq", xs, ys, u, b, l, o, g, s, idx] =>
      match parseRatList? xs, parseRatList? ys, parseIntList? idx with
      | some xs, some ys, some ix =>
        if xs.length ≠ ys.length then "bad-op" else withGrid u b l o g s (fun gr =>
          showOpt showRats ((cartChangePitchSeq (List.zip xs ys) gr).bind (fun g2 => getCoordinates g2 ix)))
      | _, _, _ => "bad-op"
  | ["trz", tau, cs, sn, nat, u, b, l, o, g, s, idx] =>
      match parseRat? tau, parseRat? cs, parseRat? sn, parseBool? nat, parseIntList? idx with
      | some tau, some cs, some sn, some nat, some ix => withGrid u b l o g s (fun gr =>
          showOpt showRats (trzGetCoordinates tau cs sn nat gr ix))
      | _, _, _, _, _ => "bad-op"
  | ["trzringpos", i, j] => match parseInt? i, parseInt? j with
      | some i, some j => showPair (trzRingPos i j) ++ showPair (trzFromRingPos (trzRingPos i j).1 (trzRingPos i j).2)
      | _, _ => "bad-op"
  | "mutseq" :: u :: b :: l :: o :: g :: s :: idx :: muts =>
      match parseIntList? idx, muts.mapM parseMut? with
      | some ix, some ms => withGrid u b l o g s (fun gr =>
          match applyMuts { g := gr, backups := [] } ms with
          | none => "reject"
          | some gs =>
            showOpt showArgs (reduce gs.g) ++ " ; " ++ showOpt showRats (getCoordinates gs.g ix) ++ " ; " ++
              showOpt showRats (getCellBase gs.g ix) ++ " ; " ++ showOpt showRats (getCellTop gs.g ix) ++ " ; " ++
              (match (reduce gs.g).bind build with
               | some g2 => if g2 == gs.g then "same" else "differs"
               | none => "norebuild"))
      | _, _ => "bad-op"
  | "globalbase" :: rest => match parseLocs? rest with
      | some locs => if locs.isEmpty then "bad-op" else showOpt showRats (globalBase locs)
      | none => "bad-op"
  | "globaltop" :: rest => match parseLocs? rest with
      | some locs => if locs.isEmpty then "bad-op" else showOpt showRats (globalTop locs)
      | none => "bad-op"
  | "global" :: rest => match parseLocs? rest with
      | some locs => if locs.isEmpty then "bad-op" else showOpt showRats (globalCoords locs)
      | none => "bad-op"
  | "globalTN" :: nat :: rest => match parseBool? nat, parseLocsT? rest with
      | some nat, some locs => if locs.isEmpty then "bad-op" else showOpt showRats (globalCoordsTN nat locs)
      | _, _ => "bad-op"
  | "globalT" :: rest => match parseLocsT? rest with
      | some locs => if locs.isEmpty then "bad-op" else showOpt showRats (globalCoordsT locs)
      | none => "bad-op"
  | "completechain" :: rest => match parseLocs? rest with
      | some locs => if locs.isEmpty then "bad-op"
          else if (match locs with | l :: rest => completeIndicesRaises l rest.head? | [] => false) then "reject"
          else showRats (completeIndicesChain locs)
      | none => "bad-op"
  | "addingvalid" :: rest => match parseLocs? rest with
      | some [a, b] => (match a.grid, b.grid with
          | some ga, some gb => showBool (addingIsValid ga gb)
          | _, _ => "bad-op")
      | _ => "bad-op"
  | "complete" :: rest => match parseLoc? rest with
      | some (self, ["_"]) => showRats (completeIndices self none)
      | some (self, more) => (match parseLoc? more with
          | some (p, []) => if completeIndicesRaises self (some p) then "reject" else showRats (completeIndices self (some p))
          | _ => "bad-op")
      | none => "bad-op"
  | _ => "bad-op"

def main : IO Unit := loop answer
