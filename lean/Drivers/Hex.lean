import ArmiVerif.Model.Proto
import ArmiVerif.Model.Hex
open ArmiVerif ArmiVerif.Proto ArmiVerif.Hex

def answer : List String → String
  | ["ringpos", i, j] => match parseInt? i, parseInt? j with
      | some i, some j => showPair (toRingPos i j)
      | _, _ => "bad-op"
  | ["fromringpos", r, p] => match parseInt? r, parseInt? p with
      | some r, some p => showOpt showPair (fromRingPos r p)
      | _, _ => "bad-op"
  | ["posinring", r] => match parseInt? r with
      | some r => toString (positionsInRing r) | _ => "bad-op"
  | ["totalupto", r] => match parseNat? r with
      | some r => toString (totalUpTo r) | _ => "bad-op"
  | ["numrings", n] => match parseNat? n with
      | some n => toString (numRings n) | _ => "bad-op"
  | ["neigh", i, j] => match parseInt? i, parseInt? j with
      | some i, some j => showList showPair (neighbours i j)
      | _, _ => "bad-op"
  | ["coef", cu, i, j] => match parseBool? cu, parseInt? i, parseInt? j with
      | some cu, some i, some j => showPair (coef cu i j)
      | _, _, _ => "bad-op"
  | ["rot", k, i, j] => match parseInt? k, parseInt? i, parseInt? j with
      | some k, some i, some j => showPair (rotateIndex k (i, j))
      | _, _, _ => "bad-op"
  | ["sym3", i, j] => match parseInt? i, parseInt? j with
      | some i, some j => showList showPair (sym3 (i, j))
      | _, _ => "bad-op"
  | ["line", i, j] => match parseInt? i, parseInt? j with
      | some i, some j => toString (lineOf (i, j))
      | _, _ => "bad-op"
  | ["third", top, i, j] => match parseBool? top, parseInt? i, parseInt? j with
      | some t, some i, some j => showBool (inFirstThird t (i, j))
      | _, _, _ => "bad-op"
  | ["rotcell", c, o] => match parseInt? c, parseInt? o with
      | some c, some o => showOpt toString (rotatedCell c o)
      | _, _ => "bad-op"
  | _ => "bad-op"

def main : IO Unit := loop answer
