import ArmiVerif.Model.Proto
import ArmiVerif.Model.Hex
open ArmiVerif ArmiVerif.Proto ArmiVerif.Hex

/-
C08 additions:
  indomain third overlap i j      hexequiv sym i j       pivot [rats] p
  rotblock rotNum hasGrid orientation CHILDREN BOUNDARY DISP
    CHILDREN = [child,...]  child = [m,[i,j,k],...] | [c,x,y,z] | [i,i,j,k] | [n]
    BOUNDARY = [[rats],...]   DISP = _ | [x,y]
  answer: orientation|children|boundary|disp with numbers re+ir*sqrt3 printed as (re,ir)
-/
def showQ3 (q : Q3) : String := "(" ++ showRat q.re ++ "," ++ showRat q.ir ++ ")"

def parseCell? (s : String) : Option (Int × Int × Int) :=
  match parseIntList? s with
  | some [i, j, k] => some (i, j, k)
  | _ => none

def parseChild? (s : String) : Option ChildLoc := do
  let parts ← splitTop s
  match parts with
  | "m" :: cells => (cells.mapM parseCell?).map ChildLoc.multi
  | ["c", x, y, z] => do
      let x ← parseRat? x; let y ← parseRat? y; let z ← parseRat? z
      some (.coord (Q3.ofRat x) (Q3.ofRat y) z)
  | ["i", i, j, k] => do
      let i ← parseInt? i; let j ← parseInt? j; let k ← parseInt? k
      some (.index i j k)
  | ["n"] => some .none
  | _ => none

def showCell (c : Int × Int × Int) : String :=
  "[" ++ toString c.1 ++ "," ++ toString c.2.1 ++ "," ++ toString c.2.2 ++ "]"

def showChild : ChildLoc → String
  | .multi cells => "[m" ++ String.join (cells.map (fun c => "," ++ showCell c)) ++ "]"
  | .coord x y z => "[c," ++ showQ3 x ++ "," ++ showQ3 y ++ "," ++ showRat z ++ "]"
  | .index i j k => "[i," ++ toString i ++ "," ++ toString j ++ "," ++ toString k ++ "]"
  | .none => "[n]"

def showBlock (b : Block) : String :=
  showRat b.orientation ++ "|" ++ showList showChild b.children ++ "|" ++
    showList (showList showRat) b.boundary ++ "|" ++
    (match b.disp with
     | none => "_"
     | some d => "[" ++ showQ3 d.1 ++ "," ++ showQ3 d.2 ++ "]")

def parseBlock? (hg ori ch bd dp : String) : Option Block := do
  let hg ← parseBool? hg
  let ori ← parseRat? ori
  let ch ← parseList? parseChild? ch
  let bd ← parseList? parseRatList? bd
  let disp : Option (Q3 × Q3) ← (if dp = "_" then some none else
    match parseRatList? dp with
    | some [x, y] => some (some (Q3.ofRat x, Q3.ofRat y))
    | _ => none)
  some { hasGrid := hg, children := ch, orientation := ori, boundary := bd, disp := disp }

def parseBlocks? : List String → Option (List Block)
  | [] => some []
  | hg :: ori :: ch :: bd :: dp :: rest => do
    let b ← parseBlock? hg ori ch bd dp
    let more ← parseBlocks? rest
    some (b :: more)
  | _ => none

def answer : List String → String
  | "rotassembly" :: rn :: third :: rem :: tol :: rest =>
      -- rotassembly rotNum pi/3 remainder tol  (hasGrid orientation CHILDREN BOUNDARY DISP)*  ->  block ; block ; ...
      match parseInt? rn, parseRat? third, parseRat? rem, parseRat? tol, parseBlocks? rest with
      | some rn, some third, some rem, some tol, some bs =>
        if rn < 0 ∨ rn > 6 then "bad-op" else
        showOpt (fun l => " ; ".intercalate (l.map showBlock)) (rotateHexAssembly third rem tol rn bs)
      | _, _, _, _, _ => "bad-op"
  | ["indomain", th, ov, i, j] => match parseBool? th, parseBool? ov, parseInt? i, parseInt? j with
      | some th, some ov, some i, some j => showBool (hexInDomain th ov (i, j))
      | _, _, _, _ => "bad-op"
  | ["hexequiv", sy, i, j] => match parseNat? sy, parseInt? i, parseInt? j with
      | some sy, some i, some j => showOpt (showList showPair) (hexEquivalents sy (i, j))
      | _, _, _ => "bad-op"
  | ["pivot", l, p] => match parseRatList? l, parseInt? p with
      | some l, some p => showList showRat (pivot l p)
      | _, _ => "bad-op"
  | ["rotblock", rn, hg, ori, ch, bd, dp] =>
      match parseInt? rn, parseBool? hg, parseRat? ori, parseList? parseChild? ch,
            parseList? parseRatList? bd with
      | some rn, some hg, some ori, some ch, some bd =>
        let disp : Option (Option (Q3 × Q3)) :=
          if dp = "_" then some none else
          match parseRatList? dp with
          | some [x, y] => some (some (Q3.ofRat x, Q3.ofRat y))
          | _ => none
        (match disp with
         | none => "bad-op"
         | some d =>
           if rn < 0 ∨ rn > 6 then "bad-op" else
           showBlock (rotateBlock rn { hasGrid := hg, children := ch, orientation := ori,
                                       boundary := bd, disp := d }))
      | _, _, _, _, _ => "bad-op"
  | ["rot3", n, i, j, k] => match parseInt? n, parseInt? i, parseInt? j, parseInt? k with
      | some n, some i, some j, some k => showCell (rotateLoc n (i, j, k))
      | _, _, _, _ => "bad-op"
  | ["hexequiv3", sy, i, j, k] => match parseNat? sy, parseInt? i, parseInt? j, parseInt? k with
      | some sy, some i, some j, some k => showOpt (showList showPair) (hexEquivalentsK sy (i, j, k))
      | _, _, _, _ => "bad-op"
  | ["line3", i, j, k] => match parseInt? i, parseInt? j, parseInt? k with
      | some i, some j, some k => toString (lineOfK (i, j, k))
      | _, _, _ => "bad-op"
  | ["indomain3", th, ov, i, j, k] => match parseBool? th, parseBool? ov, parseInt? i, parseInt? j, parseInt? k with
      | some th, some ov, some i, some j, some k => showBool (hexInDomainK th ov (i, j, k))
      | _, _, _, _, _ => "bad-op"
  | ["third3", top, i, j, k] => match parseBool? top, parseInt? i, parseInt? j, parseInt? k with
      | some t, some i, some j, some k => showBool (inFirstThirdK t (i, j, k))
      | _, _, _, _ => "bad-op"
  | ["ringpos", i, j] => match parseInt? i, parseInt? j with
      | some i, some j => showPair (toRingPos i j)
      | _, _ => "bad-op"
  | ["fromringpos", r, p] => match parseInt? r, parseInt? p with
      | some r, some p => showOpt showPair (fromRingPos r p)
      | _, _ => "bad-op"
  | ["posinring", r] => match parseInt? r with
      | some r => toString (positionsInRing r) | _ => "bad-op"
  | ["totalupto", r] => match parseNat? r with
      | some r => toString (totalUpTo r) | _ => "bad-op"
  | ["numrings", n] => match parseNat? n with
      | some n => toString (numRings n) | _ => "bad-op"
  | ["neigh3", i, j, k] => match parseInt? i, parseInt? j, parseInt? k with
      | some i, some j, some k => showList showCell (neighbours3 i j k)
      | _, _, _ => "bad-op"
  | ["neigh", i, j] => match parseInt? i, parseInt? j with
      | some i, some j => showList showPair (neighbours i j)
      | _, _ => "bad-op"
  | ["coef", cu, i, j] => match parseBool? cu, parseInt? i, parseInt? j with
      | some cu, some i, some j => showPair (coef cu i j)
      | _, _, _ => "bad-op"
  | ["rot", k, i, j] => match parseInt? k, parseInt? i, parseInt? j with
      | some k, some i, some j => showPair (rotateIndex k (i, j))
      | _, _, _ => "bad-op"
  | ["sym3", i, j] => match parseInt? i, parseInt? j with
      | some i, some j => showList showPair (sym3 (i, j))
      | _, _ => "bad-op"
  | ["line", i, j] => match parseInt? i, parseInt? j with
      | some i, some j => toString (lineOf (i, j))
      | _, _ => "bad-op"
  | ["third", top, i, j] => match parseBool? top, parseInt? i, parseInt? j with
      | some t, some i, some j => showBool (inFirstThird t (i, j))
      | _, _, _ => "bad-op"
  | ["rotcell", c, o] => match parseInt? c, parseInt? o with
      | some c, some o => showOpt toString (rotatedCell c o)
      | _, _ => "bad-op"
  | _ => "bad-op"

def main : IO Unit := loop answer
