import ArmiVerif.Model.Proto
import ArmiVerif.Model.IfaceStack
open ArmiVerif ArmiVerif.Proto ArmiVerif.IfaceStack

structure DS where
  sub : List (Nat × Nat) := []
  s : List SI := []

def subOf (d : DS) (a b : Nat) : Bool := a == b || d.sub.contains (a, b)

def optNat? (s : String) : Option (Option Nat) := if s = "_" then some none else (parseNat? s).map some
def optInt? (s : String) : Option (Option Int) := if s = "_" then some none else (parseInt? s).map some

def showStack (s : List SI) : String :=
  showList (fun i => toString i.uid ++ ":" ++ showBool i.enabled ++ showBool i.bolForce ++ showBool i.reverseAtEOL) s

def parsePairs? (s : String) : Option (List (Nat × Nat)) := do
  (← parseList? parseNatList? s).mapM (fun l => match l with | [a, b] => some (a, b) | _ => none)

/-- info: [order,uid,name,func,klass,index,rev,en,bf] with `_` for None -/
def parseInfo? (s : String) : Option Info := do
  match ← splitTop s with
  | [o, u, n, f, k, idx, rev, en, bf] =>
    some { order := ← parseRat? o,
           iface := ⟨← parseNat? u, ← parseNat? n, ← optNat? f, ← parseNat? k, true, false, false⟩,
           index := ← optInt? idx, rev := ← parseBool? rev, en := ← parseBool? en, bf := ← parseBool? bf }
  | _ => none

def step (d : DS) : List String → DS × String
  | ["reset", sub] => match parsePairs? sub with
    | some sub => ({ sub := sub, s := [] }, "ok") | none => (d, "bad-op")
  | ["add", u, n, f, k, idx, rev, en, bf] =>
    match parseNat? u, parseNat? n, optNat? f, parseNat? k, optInt? idx, parseBool? rev, parseBool? en, parseBool? bf with
    | some u, some n, some f, some k, some idx, some rev, some en, some bf =>
      match addInterface (subOf d) d.s ⟨u, n, f, k, true, false, false⟩ idx rev en bf with
      | .raised => (d, "raised")
      | .ignored => (d, "ignored " ++ showStack d.s)
      | .ok s' => ({ d with s := s' }, "ok " ++ showStack s')
    | _, _, _, _, _, _, _, _ => (d, "bad-op")
  | ["rmname", n] => match parseNat? n with
    | some n => match removeByName d.s n with
      | none => (d, "raised")
      | some (s', b) => ({ d with s := s' }, showBool b ++ " " ++ showStack s')
    | none => (d, "bad-op")
  | ["rmobj", u] => match parseNat? u with
    | some u => let r := removeByUid d.s u
                ({ d with s := r.1 }, showBool r.2 ++ " " ++ showStack r.1)
    | none => (d, "bad-op")
  | ["get", n, f] => match optNat? n, optNat? f with
    | some n, some f => match getInterface d.s n f with
      | .multiple => (d, "raised") | .none => (d, "none") | .one x => (d, toString x.uid)
    | _, _ => (d, "bad-op")
  | ["create", infos] => match parseList? parseInfo? infos with
    | some infos => match createInterfaces (subOf d) infos d.s with
      | none => (d, "raised")
      | some s' => ({ d with s := s' }, "ok " ++ showStack s')
    | none => (d, "bad-op")
  | _ => (d, "bad-op")

def main : IO Unit := loopState ({} : DS) step
