import ArmiVerif.Model.Proto
import ArmiVerif.Model.Layout
import ArmiVerif.Gen.PackConsts
open ArmiVerif ArmiVerif.Proto ArmiVerif.Layout

/-! line protocol for Model/Layout.lean (C04).
tree  := [ty,serial,LOC,GRID,[tree,...]]     LOC := n | [c,x,y,z] | [i,i,j,k] | [m,[[i,j,k],...]]    GRID := _ | nat
-/

inductive J | atom (s : String) | list (l : List J)
  deriving Inhabited

partial def parseJ (cs : List Char) : Option (J × List Char) :=
  match cs with
  | '[' :: rest =>
    let rec items (cs : List Char) (acc : List J) : Option (J × List Char) :=
      match cs with
      | ']' :: r => some (.list acc.reverse, r)
      | ',' :: r => items r acc
      | _ => match parseJ cs with
        | some (j, r) => items r (j :: acc)
        | none => none
    items rest []
  | _ =>
    let tok := cs.takeWhile (fun c => c ≠ ',' ∧ c ≠ ']' ∧ c ≠ '[')
    if tok.isEmpty then none else some (.atom (String.ofList tok), cs.drop tok.length)

def parseJAll (s : String) : Option J :=
  match parseJ s.toList with
  | some (j, []) => some j
  | _ => none

def jInt? : J → Option Int
  | .atom s => s.toInt?
  | _ => none
def jNat? : J → Option Nat
  | .atom s => s.toNat?
  | _ => none

def jTriple? : J → Option (Int × Int × Int)
  | .list [a, b, c] => do pure ((← jInt? a), (← jInt? b), (← jInt? c))
  | _ => none

def jLoc? : J → Option Loc
  | .atom "n" => some .none
  | .list [.atom "c", x, y, z] => do pure (.coord (← jInt? x) (← jInt? y) (← jInt? z))
  | .list [.atom "i", x, y, z] => do pure (.index (← jInt? x) (← jInt? y) (← jInt? z))
  | .list [.atom "m", .list l] => do pure (.multi (← l.mapM jTriple?))
  | _ => none

def jGrid? : J → Option (Option Nat)
  | .atom "_" => some none
  | j => (jNat? j).map some

partial def jTree? : J → Option Tree
  | .list [ty, sn, loc, g, .list kids] => do
    let lab : Label := ⟨← jNat? ty, ← jNat? sn, ← jLoc? loc, ← jGrid? g⟩
    let ks ← kids.mapM jTree?
    pure (.node lab (ks.foldr Forest.cons .nil))
  | _ => none

def showTriple (t : Int × Int × Int) : String := "[" ++ toString t.1 ++ "," ++ toString t.2.1 ++ "," ++ toString t.2.2 ++ "]"

def showLoc : Loc → String
  | .none => "n"
  | .coord x y z => "[c," ++ toString x ++ "," ++ toString y ++ "," ++ toString z ++ "]"
  | .index x y z => "[i," ++ toString x ++ "," ++ toString y ++ "," ++ toString z ++ "]"
  | .multi l => "[m," ++ showList showTriple l ++ "]"

def showGrid : Option Nat → String
  | none => "_"
  | some g => toString g

mutual
partial def showTree : Tree → String
  | .node lab kids => "[" ++ toString lab.ty ++ "," ++ toString lab.serial ++ "," ++ showLoc lab.loc ++ "," ++ showGrid lab.grid
      ++ ",[" ++ ",".intercalate (showForest kids) ++ "]]"
partial def showForest : Forest → List String
  | .nil => []
  | .cons t f => showTree t :: showForest f
end

def label (k : String) : String := (Gen.PackConsts.locLabels.lookup k).getD "?"

def showLbl : Lbl → String
  | .N => label "NoneType"
  | .C => label "CoordinateLocation"
  | .I => label "IndexLocation"
  | .M n => label "MultiIndexLocation" ++ toString n

def parseLbl? (s : String) : Option Lbl :=
  if s = label "NoneType" then some .N
  else if s = label "CoordinateLocation" then some .C
  else if s = label "IndexLocation" then some .I
  else if s.startsWith (label "MultiIndexLocation") then
    ((s.splitOn ":").getD 1 "").toNat?.map Lbl.M
  else none

def showOptNat : Option Nat → String
  | none => "_"
  | some n => toString n

def answerFlatten (t : Tree) : String :=
  let rows := flattenT t
  let labs := rows.map (·.1)
  let (lbls, data) := packLocs (labs.map (·.loc))
  let keys := labs.map (·.grid)
  let roundtrip := match compose rows with
    | some t' => if showTree t' = showTree t then "T" else "F"
    | none => "F"
  showList toString (labs.map (·.ty)) ++ " " ++ showList toString (labs.map (·.serial)) ++ " "
    ++ showList toString (rows.map (·.2)) ++ " " ++ showList toString (indexInData (labs.map (·.ty))) ++ " "
    ++ showList showOptNat (gridIndex keys) ++ " " ++ showList toString (gridTable keys []) ++ " "
    ++ showList showLbl lbls ++ " " ++ showList showTriple data ++ " " ++ roundtrip

/-- rows := [[ty,serial,nKids,grid],...] plus labels and location data as read from a file -/
def answerCompose (rows lbls data : String) : String :=
  match parseJAll rows, parseList? parseLbl? lbls, parseJAll data with
  | some (.list rs), some ls, some (.list ds) =>
    match ds.mapM jTriple? with
    | none => "bad-op"
    | some triples =>
      match unpackLocs ls triples with
      | none => "reject"
      | some locs =>
        if locs.length ≠ rs.length then "reject" else
        let mk := (rs.zip locs).mapM (fun (p : J × Loc) => match p.1 with
          | .list [ty, sn, nk, g] => do
              let lab : Label := ⟨← jNat? ty, ← jNat? sn, p.2, ← jGrid? g⟩
              pure (lab, ← jNat? nk)
          | _ => none)
        match mk with
        | none => "bad-op"
        | some rows => match compose rows with
          | none => "reject"
          | some t => showTree t
  | _, _, _ => "bad-op"

def answer : List String → String
  | ["flatten", t] => match (parseJAll t).bind jTree? with
      | some t => answerFlatten t
      | none => "bad-op"
  | ["compose", rows, lbls, data] => answerCompose rows lbls data
  | ["ancestors", l] => match parseJAll l with
      | some (.list ps) =>
        match ps.mapM (fun p => match p with | .list [a, b] => do pure ((← jNat? a), (← jNat? b)) | _ => none) with
        | some rows => showList showOptNat (ancestors rows)
        | none => "bad-op"
      | _ => "bad-op"
  | ["sortidx", l] => match parseJAll l with
      | some (.list ks) => match ks.mapM jTriple? with
        | some keys => showList toString (sortIdx keys)
        | none => "bad-op"
      | _ => "bad-op"
  | ["dbversion"] => toString Gen.PackConsts.dbMajor ++ "." ++ toString Gen.PackConsts.dbMinor
  | _ => "bad-op"

def main : IO Unit := loop answer
