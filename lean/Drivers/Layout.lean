import ArmiVerif.Model.Proto
import ArmiVerif.Model.Layout
import ArmiVerif.Gen.PackConsts
open ArmiVerif ArmiVerif.Proto ArmiVerif.Layout

/-! line protocol for Model/Layout.lean (C04).
tree  := [ty,serial,LOC,GRID,[tree,...]]     LOC := n | [c,x,y,z] | [i,i,j,k] | [m,[[i,j,k],...]]    GRID := _ | nat
-/

inductive J | atom (s : String) | list (l : List J)
  deriving Inhabited

partial def parseJ (cs : List Char) : Option (J × List Char) :=
  match cs with
  | '[' :: rest =>
    let rec items (cs : List Char) (acc : List J) : Option (J × List Char) :=
      match cs with
      | ']' :: r => some (.list acc.reverse, r)
      | ',' :: r => items r acc
      | _ => match parseJ cs with
        | some (j, r) => items r (j :: acc)
        | none => none
    items rest []
  | _ =>
    let tok := cs.takeWhile (fun c => c ≠ ',' ∧ c ≠ ']' ∧ c ≠ '[')
    if tok.isEmpty then none else some (.atom (String.ofList tok), cs.drop tok.length)

def parseJAll (s : String) : Option J :=
  match parseJ s.toList with
  | some (j, []) => some j
  | _ => none

def jInt? : J → Option Int
  | .atom s => s.toInt?
  | _ => none
def jNat? : J → Option Nat
  | .atom s => s.toNat?
  | _ => none

def jTriple? : J → Option (Int × Int × Int)
  | .list [a, b, c] => do pure ((← jInt? a), (← jInt? b), (← jInt? c))
  | _ => none

def jLoc? : J → Option Loc
  | .atom "n" => some .none
  | .list [.atom "c", x, y, z] => do pure (.coord (← jInt? x) (← jInt? y) (← jInt? z))
  | .list [.atom "i", x, y, z] => do pure (.index (← jInt? x) (← jInt? y) (← jInt? z))
  | .list [.atom "m", .list l] => do pure (.multi (← l.mapM jTriple?))
  | _ => none

def jGrid? : J → Option (Option Nat)
  | .atom "_" => some none
  | j => (jNat? j).map some

partial def jTree? : J → Option Tree
  | .list [ty, sn, loc, g, .list kids] => do
    let lab : Label := ⟨← jNat? ty, ← jNat? sn, ← jLoc? loc, ← jGrid? g⟩
    let ks ← kids.mapM jTree?
    pure (.node lab (ks.foldr Forest.cons .nil))
  | _ => none

def showTriple (t : Int × Int × Int) : String := "[" ++ toString t.1 ++ "," ++ toString t.2.1 ++ "," ++ toString t.2.2 ++ "]"

def showLoc : Loc → String
  | .none => "n"
  | .coord x y z => "[c," ++ toString x ++ "," ++ toString y ++ "," ++ toString z ++ "]"
  | .index x y z => "[i," ++ toString x ++ "," ++ toString y ++ "," ++ toString z ++ "]"
  | .multi l => "[m," ++ showList showTriple l ++ "]"

def showGrid : Option Nat → String
  | none => "_"
  | some g => toString g

mutual
partial def showTree : Tree → String
  | .node lab kids => "[" ++ toString lab.ty ++ "," ++ toString lab.serial ++ "," ++ showLoc lab.loc ++ "," ++ showGrid lab.grid
      ++ ",[" ++ ",".intercalate (showForest kids) ++ "]]"
partial def showForest : Forest → List String
  | .nil => []
  | .cons t f => showTree t :: showForest f
end

def label (k : String) : String := (Gen.PackConsts.locLabels.lookup k).getD "?"

def showLbl : Lbl → String
  | .N => label "NoneType"
  | .C => label "CoordinateLocation"
  | .I => label "IndexLocation"
  | .M n => label "MultiIndexLocation" ++ toString n

def parseLbl? (s : String) : Option Lbl :=
  if s = label "NoneType" then some .N
  else if s = label "CoordinateLocation" then some .C
  else if s = label "IndexLocation" then some .I
  else if s.startsWith (label "MultiIndexLocation") then
    -- `int(lt.split(":")[1])`: a negative count gives `range(n)` empty, i.e. a multi-index location without entries
    ((s.splitOn ":").getD 1 "").toInt?.map (fun n => Lbl.M n.toNat)
  else none

def showOptNat : Option Nat → String
  | none => "_"
  | some n => toString n

def answerFlatten (t : Tree) : String :=
  let rows := flattenT t
  let c := colsOfRows rows            -- the columns `Layout(comp=…)` / `writeToDB` produce
  -- read side on the same columns: `_readLayout` / `_initComps` (rowsOfCols), then `_compose`
  let roundtrip := match (rowsOfCols c).bind compose with
    | some t' => if showTree t' = showTree t then "T" else "F"
    | none => "F"
  showList toString c.ty ++ " " ++ showList toString c.serial ++ " "
    ++ showList toString c.nKids ++ " " ++ showList toString c.idx ++ " "
    ++ showList showOptNat c.gridIndex ++ " " ++ showList toString c.gridTab ++ " "
    ++ showList showLbl c.lbls ++ " " ++ showList showTriple c.locData ++ " " ++ roundtrip

/-- rows := [[ty,serial,nKids,grid],...] plus labels and location data as read from a file -/
def answerCompose (rows lbls data : String) : String :=
  match parseJAll rows, parseList? parseLbl? lbls, parseJAll data with
  | some (.list rs), some ls, some (.list ds) =>
    match ds.mapM jTriple? with
    | none => "bad-op"
    | some triples =>
      match unpackLocs ls triples with
      | none => "reject"
      | some locs =>
        if locs.length ≠ rs.length then "reject" else
        let mk := (rs.zip locs).mapM (fun (p : J × Loc) => match p.1 with
          | .list [ty, sn, nk, g] => do
              let lab : Label := ⟨← jNat? ty, ← jNat? sn, p.2, ← jGrid? g⟩
              pure (lab, ← jNat? nk)
          | _ => none)
        match mk with
        | none => "bad-op"
        | some rows => match compose rows with
          | none => "reject"
          | some t => showTree t
  | _, _, _ => "bad-op"

def answer : List String → String
  | ["flatten", t] => match (parseJAll t).bind jTree? with
      | some t => answerFlatten t
      | none => "bad-op"
  | ["compose", rows, lbls, data] => answerCompose rows lbls data
  | ["ancestors", l] => match parseJAll l with
      | some (.list ps) =>
        match ps.mapM (fun p => match p with | .list [a, b] => do pure ((← jNat? a), (← jNat? b)) | _ => none) with
        | some rows => showList showOptNat (ancestors rows)
        | none => "bad-op"
      | _ => "bad-op"
  | ["sortidx", l] => match parseJAll l with
      | some (.list ks) => match ks.mapM jTriple? with
        | some keys => showList toString (sortIdx keys)
        | none => "bad-op"
      | _ => "bad-op"
  | ["sortcomp", l] => match parseJAll l with
      -- [[od,id],...] exact rationals of the cold bounding-circle outer / inner diameters
      | some (.list ks) =>
        match ks.mapM (fun k => match k with
            | .list [.atom a, .atom b] => do pure ((← parseRat? a), (← parseRat? b))
            | _ => none) with
        | some keys => showList toString (sortIdxComp keys)
        | none => "bad-op"
      | _ => "bad-op"
  | ["unpacklocs", lbls, data] =>
      -- labels as stored (`N`, `C`, `I`, `M:<n>`; anything else: ValueError), data triples; reject = the real code raises
      match parseJAll data with
      | some (.list ds) => match ds.mapM jTriple? with
        | none => "bad-op"
        | some triples => match parseList? (fun s => some (parseLbl? s)) lbls with
          | none => "bad-op"
          | some ls =>
            -- the real loop raises at the FIRST bad label or when the data run out, whichever comes first
            let rec go (ls : List (Option Lbl)) (ds : List (Int × Int × Int)) (acc : List Loc) : Option (List Loc) :=
              match ls with
              | [] => some acc.reverse
              | none :: _ => none
              | some l :: r => match unpackLocs [l] ds with
                | some [loc] =>
                  let used := match l with | .M n => n | _ => 1
                  go r (ds.drop used) (loc :: acc)
                | _ => none
            match go ls triples [] with
            | some locs => showList showLoc locs
            | none => "reject"
      | _ => "bad-op"
  | ["groupname", c, n, l] => match c.toNat?, n.toNat? with
      | some c, some n => groupName c n (String.ofList (l.toList.drop 1))
      | _, _ => "bad-op"
  | ["filehist", l] => match parseJAll l with
      -- [[w,name,pid,lid],[d,name],[r,name],...] on one new file (File.step): w -> ok | rej (ValueError, file unchanged);
      -- d -> ok | rej (KeyError); r -> pid/lid (parameter-borne and layout-borne marker of what is stored) | _ (KeyError)
      | some (.list ops) =>
        let step := fun (st : File Nat × List String) (op : J) => match op with
          | .list [.atom "w", .atom name, pid, lid] => match jNat? pid, jInt? lid with
            | some pid, some lid =>
              let f' := st.1.step (.write name ⟨[], [(0, lid, lid)], pid⟩)
              (f', (if (st.1.write name ⟨[], [], pid⟩).isSome then "ok" else "rej") :: st.2)
            | _, _ => (st.1, "bad-op" :: st.2)
          | .list [.atom "d", .atom name] =>
              (st.1.step (.delete name), (if (st.1.delete name).isSome then "ok" else "rej") :: st.2)
          | .list [.atom "r", .atom name] => match st.1.get name with
            | some s => (st.1, (toString s.params ++ "/" ++ toString ((s.extras.head?.map (·.2.1)).getD 0)) :: st.2)
            | none => (st.1, "_" :: st.2)
          | _ => (st.1, "bad-op" :: st.2)
        showList id ((ops.foldl step (([] : File Nat), [])).2.reverse)
      | _ => "bad-op"
  | ["assignbp", tys, classes] => match parseList? (fun s => s.toNat?) tys, parseList? (fun s => s.toNat?) classes with
      -- object i holds i; every design would assign i + 1000000: how many objects hold another value afterwards
      | some tys, some cls =>
        let vals := List.range tys.length
        let out := assignBlueprints (initGroups tys) cls (fun i => some (i + 1000000)) vals
        toString ((vals.zip out).filter (fun p => p.1 ≠ p.2)).length
      | _, _ => "bad-op"
  | ["dbversion"] => toString Gen.PackConsts.dbMajor ++ "." ++ toString Gen.PackConsts.dbMinor
  | _ => "bad-op"

def main : IO Unit := loop answer
