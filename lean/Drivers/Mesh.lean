import ArmiVerif.Model.Proto
import ArmiVerif.Model.Mesh
open ArmiVerif ArmiVerif.Proto ArmiVerif.Mesh

def parseOptRat? (s : String) : Option (Option Rat) :=
  if s = "_" then some none else (parseRat? s).map some

def mkBlks {α : Type} (zb zt h : List Rat) (v : List α) : Option (List (Blk α)) :=
  if zb.length = zt.length ∧ zt.length = h.length ∧ h.length = v.length then
    some ((List.zip (List.zip zb zt) (List.zip h v)).map (fun x => ⟨x.1.1, x.1.2, x.2.1, x.2.2⟩))
  else none

def showDest : DestVal → String
  | .unchanged => "_"
  | .set v => showRat v

def showOv (x : Nat × Rat) : String := "(" ++ toString x.1 ++ "," ++ showRat x.2 ++ ")"

def parseKind? : String → Option Kind
  | "int" => some .integrated
  | "avg" => some .averaged
  | "peak" => some .peak
  | _ => none

def answer : List String → String
  | ["between", zb, zt, h, zl, zu] =>
    match parseRatList? zb, parseRatList? zt, parseRatList? h, parseRat? zl, parseRat? zu with
    | some zb, some zt, some h, some zl, some zu =>
      match mkBlks zb zt h (List.range zb.length) with
      | some bs => showOpt (showList showOv) (blocksBetween bs zl zu)
      | none => "bad-op"
    | _, _, _, _, _ => "bad-op"
  | ["atelev", h, e] =>
    match parseRatList? h, parseRat? e with
    | some h, some e =>
      match mkBlks h h h (List.range h.length) with
      | some bs => match blockAtElevation bs e with
        | .found i => toString i
        | .notFound => "none"
        | .divZero => "reject"
      | none => "bad-op"
    | _, _ => "bad-op"
  | ["remapnd", szb, szt, sh, sv, dzb, dzt, dh] =>
    match parseRatList? szb, parseRatList? szt, parseRatList? sh, parseRatList? sv,
          parseRatList? dzb, parseRatList? dzt, parseRatList? dh with
    | some szb, some szt, some sh, some sv, some dzb, some dzt, some dh =>
      match mkBlks szb szt sh sv, mkBlks dzb dzt dh (dzb.map (fun _ => ())) with
      | some src, some dst => showOpt (showList showDest) (remapND src dst)
      | _, _ => "bad-op"
    | _, _, _, _, _, _, _ => "bad-op"
  | ["remap", k, szb, szt, sh, sv, dzb, dzt, dh] =>
    match parseKind? k, parseRatList? szb, parseRatList? szt, parseRatList? sh, parseList? parseOptRat? sv,
          parseRatList? dzb, parseRatList? dzt, parseRatList? dh with
    | some k, some szb, some szt, some sh, some sv, some dzb, some dzt, some dh =>
      match mkBlks szb szt sh sv, mkBlks dzb dzt dh (dzb.map (fun _ => ())) with
      | some src, some dst => showOpt (showList showDest) (remapParam k src dst)
      | _, _ => "bad-op"
    | _, _, _, _, _, _, _, _ => "bad-op"
  | ["filter", pts, m, anch, top] =>
    match parseRatList? pts, parseRat? m, parseRatList? anch, parseBool? top with
    | some pts, some m, some anch, some top =>
      match filterMesh pts m anch top with
      | .ok l => showList showRat l
      | .anchors => "reject"
      | .fuel => "fuel"
    | _, _, _, _ => "bad-op"
  | ["avg1d", rows, tol] =>
    match parseList? parseRatList? rows, parseRat? tol with
    | some rows, some tol => showOpt (showList showRat) (average1D rows tol)
    | _, _ => "bad-op"
  | ["resample", xin, yin, xout, avg] =>
    match parseRatList? xin, parseRatList? yin, parseRatList? xout, parseBool? avg with
    | some xin, some yin, some xout, some avg => showOpt (showList showRat) (resample xin yin xout avg)
    | _, _, _, _ => "bad-op"
  -- avgmesh <refN> <meshes>: _computeAverageAxialMesh
  | ["avgmesh", n, meshes] =>
    match parseNat? n, parseList? parseRatList? meshes with
    | some n, some meshes => showOpt (showList showRat) (averageAxialMesh n meshes)
    | _, _ => "bad-op"
  | ["decusp", m, common, fb, ft, cb, ct] =>
    match parseRat? m, parseRatList? common, parseRatList? fb, parseRatList? ft, parseRatList? cb, parseRatList? ct with
    | some m, some common, some fb, some ft, some cb, some ct => showOpt (showList showRat) (decusp m common fb ft cb ct)
    | _, _, _, _, _, _ => "bad-op"
  -- setheightc <hOld> <hNew> <areas> <nds with _> <caches with _>: one nuclide, component by component
  | ["setheightc", hOld, hNew, areas, nds, caches] =>
    match parseRat? hOld, parseRat? hNew, parseRatList? areas, parseList? parseOptRat? nds, parseList? parseOptRat? caches with
    | some hOld, some hNew, some areas, some nds, some caches =>
      if areas.length ≠ nds.length ∨ nds.length ≠ caches.length ∨ hNew = 0 then "bad-op" else
      let cs : List VComp := (List.zip areas (List.zip nds caches)).map (fun x => { area := x.1, nd := x.2.1, cache := x.2.2 })
      showList (fun c : VComp => match c.nd with | some v => showRat v | none => "_") (setHeightOne hOld hNew cs)
    | _, _, _, _, _ => "bad-op"
  | ["setheight", hOld, hNew, cons, adjust, ids, nds] =>
    match parseRat? hOld, parseRat? hNew, parseBool? cons, parseNatList? adjust, parseNatList? ids, parseRatList? nds with
    | some hOld, some hNew, some cons, some adjust, some ids, some nds =>
      if ids.length ≠ nds.length then "bad-op" else
      match setHeight hOld hNew cons adjust (List.zip ids nds) with
      | some (h, nd') => showRat h ++ " " ++ showList showRat (nd'.map (·.2))
      | none => "reject"
    | _, _, _, _, _, _ => "bad-op"
  | ["blockmesh", mode, af, fuels, hOlds, tops, comps] =>
    let m? : Option CMode := if mode = "off" then some .off else if mode = "all" then some .all
      else if mode = "auto" then some .auto else none
    match m?, parseBool? af, parseNatList? fuels, parseRatList? hOlds, parseRatList? tops,
          parseList? (parseList? parseRatList?) comps with
    | some m, some af, some fuels, some hOlds, some tops, some comps =>
      if fuels.length = hOlds.length ∧ hOlds.length = tops.length ∧ tops.length = comps.length then
        let mk : List Rat → MComp := fun l => match l with
          | f :: fl :: nd => { fuel := f != 0, fluid := fl != 0, nd := nd }
          | _ => { fuel := false, fluid := false, nd := [] }
        let blocks := (List.zip (List.zip fuels hOlds) (List.zip tops comps)).map
          (fun x => (x.1.1 != 0, x.1.2, x.2.1, x.2.2.map mk))
        match setBlockMesh m af true 0 blocks with
        | some r => showList (fun b : Rat × List MComp =>
            "[" ++ showRat b.1 ++ "," ++ showList (fun c : MComp => showList showRat c.nd) b.2 ++ "]") r
        | none => "reject"
      else "bad-op"
    | _, _, _, _, _, _ => "bad-op"
  | _ => "bad-op"

def main : IO Unit := loop answer
