import ArmiVerif.Model.Proto
import ArmiVerif.Model.Nuclide
open ArmiVerif ArmiVerif.Proto ArmiVerif.Nuclide

/-- capitalised database name of a bare symbol ("n" + sym.capitalize()) -/
def natDb (sym : Nat) : String :=
  match (symStr sym).toList with
  | [] => "n"
  | c :: cs => "n" ++ String.ofList (c.toUpper :: cs.map Char.toLower)

def answer : List String → String
  | ["ids", z, a, s, sym] => match parseNat? z, parseNat? a, parseNat? s, parseSym sym with
      | some z, some a, some s, some sym =>
        let r : Row := ⟨z, sym, a, s, a - z, 0⟩
        if s > 3 then "reject" else  -- _createName: metaChar[state] IndexError / ValueError
        match labelStr r with
        | none => "reject"
        | some l => nameStr r ++ " " ++ l ++ " " ++ mcnpStr r ++ " " ++ aaazzzsStr r ++ " " ++ dbNameStr r
      | _, _, _, _ => "bad-op"
  | ["nat", z, sym] => match parseNat? z, parseSym sym with
      | some z, some sym => symStr sym ++ " " ++ symStr sym ++ " " ++ toString z ++ "000 " ++ natDb sym
      | _, _ => "bad-op"
  | ["key", z, a, s] => match parseNat? z, parseNat? a, parseNat? s with
      | some z, some a, some s => toString (fullKey z a s)
      | _, _, _ => "bad-op"
  | ["struct", z, a, s, sym] => match parseNat? z, parseNat? a, parseNat? s, parseSym sym with
      | some z, some a, some s, some sym =>
        let r : Row := ⟨z, sym, a, s, a - z, 0⟩
        toString (mcnpId r) ++ " " ++ toString (aaazzzsId r) ++ " " ++ toString (labelId r).2.1 ++ " " ++
          toString (labelId r).2.2 ++ " " ++ toString (nameId r).2.2
      | _, _, _, _ => "bad-op"
  | ["mcnpdec", a0, id] => match parseNat? a0, parseNat? id with
      | some a0, some id => let d := mcnpDecode a0 id; toString d.1 ++ " " ++ toString d.2.1 ++ " " ++ toString d.2.2
      | _, _ => "bad-op"
  | ["aaadec", id] => match parseNat? id with
      | some id => let d := aaazzzsDecode id; toString d.1 ++ " " ++ toString d.2.1 ++ " " ++ toString d.2.2
      | none => "bad-op"
  | ["matdens", r, d] => match parseRat? r, parseRat? d with
      | some r, some d => if 1 + d / 100 = 0 then "reject" else showRat (matDensity r d) ++ " " ++ showRat (matPseudoDensity r d)
      | _, _ => "bad-op"
  | ["polyeval", cs, x] => match parseRatList? cs, parseRat? x with
      | some cs, some x => showRat (polyEval cs x)
      | _, _ => "bad-op"
  | _ => "bad-op"

def main : IO Unit := loop answer
