import ArmiVerif.Model.Proto
import ArmiVerif.Model.Pack
open ArmiVerif ArmiVerif.Proto ArmiVerif.Pack

/-! line protocol for Model/Pack.lean (C05). Strings travel hex-encoded (UTF-8). -/

def hexVal (c : Char) : Option Nat :=
  if '0' ≤ c ∧ c ≤ '9' then some (c.toNat - '0'.toNat)
  else if 'a' ≤ c ∧ c ≤ 'f' then some (c.toNat - 'a'.toNat + 10) else none

def unhexBytes : List Char → Option (List UInt8)
  | [] => some []
  | a :: b :: r => do
      let x ← hexVal a; let y ← hexVal b; let t ← unhexBytes r
      pure (UInt8.ofNat (16 * x + y) :: t)
  | _ => none

def unhex (s : String) : Option String := do
  let bs ← unhexBytes s.toList
  String.fromUTF8? (ByteArray.mk bs.toArray)

def hexDigit (n : Nat) : Char := if n < 10 then Char.ofNat (48 + n) else Char.ofNat (87 + n)
def hex (s : String) : String :=
  String.ofList (s.toUTF8.toList.flatMap (fun b => [hexDigit (b.toNat / 16), hexDigit (b.toNat % 16)]))

def parseDT? : String → Option DT
  | "b" => some .b | "i8" => some .i8 | "i16" => some .i16 | "i32" => some .i32 | "i64" => some .i64
  | "u8" => some .u8 | "u16" => some .u16 | "u32" => some .u32 | "u64" => some .u64
  | "f32" => some .f32 | "f64" => some .f64 | "str" => some .str | _ => none

def parseSV? (s : String) : Option SV :=
  match s.toList with
  | 'i' :: r => (String.ofList r).toInt?.map SV.i
  | 'f' :: r => if String.ofList r = "nan" then some (.f none) else (String.ofList r).toInt?.map (fun v => SV.f (some v))
  | 'b' :: r => (parseBool? (String.ofList r)).map SV.b
  | 's' :: r => (unhex (String.ofList r)).map SV.s
  | _ => none

def parseFV? (s : String) : Option (Option Int) :=
  if s = "nan" then some none else s.toInt?.map some

def parseEntry? (s : String) : Option Entry := do
  let parts ← splitTop s
  match parts with
  | ["n"] => pure .none
  | ["s", np, dt, v] => pure (.scal (← parseBool? np) (← parseDT? dt) (← parseSV? v))
  | ["a", dt, sh, d] => pure (.arr (← parseDT? dt) (← parseNatList? sh) (← parseList? parseSV? d))
  | ["l", t, dt, d] => pure (.list (← parseBool? t) (← parseDT? dt) (← parseList? parseSV? d))
  | ["m", t, dt, d] => pure (.list2 (← parseBool? t) (← parseDT? dt) (← parseList? (parseList? parseSV?) d))
  | ["d", kv] =>
      let pairs ← parseList? (fun p => do
        match (← splitTop p) with
        | [k, v] => pure ((← unhex k), (← parseFV? v))
        | _ => none) kv
      pure (.dict pairs)
  | _ => none

def showSV : SV → String
  | .i v => "i" ++ toString v
  | .f none => "fnan"
  | .f (some v) => "f" ++ toString v
  | .b v => "b" ++ showBool v
  | .s v => "s" ++ hex v

def kindOf (dt : DT) : String :=
  if dt.isInt then "i" else if dt.isFloat then "f" else if dt = .b then "b" else "s"

def dtName : DT → String
  | .b => "b" | .i8 => "i8" | .i16 => "i16" | .i32 => "i32" | .i64 => "i64" | .u8 => "u8" | .u16 => "u16"
  | .u32 => "u32" | .u64 => "u64" | .f32 => "f32" | .f64 => "f64" | .str => "str"

def showNats (l : List Nat) : String := showList toString l

def showROut : ROut → String
  | .none => "N"
  | .scal dt v => "[s," ++ kindOf dt ++ "," ++ showSV v ++ "]"
  | .arr dt sh d => if d.isEmpty then "[a,-,[0],[]]" else "[a," ++ kindOf dt ++ "," ++ showNats sh ++ "," ++ showList showSV d ++ "]"
  | .dict kv => "[d," ++ showList (fun p => "[" ++ hex p.1 ++ ",f" ++ toString p.2 ++ "]") kv ++ "]"

def showShapes : Shapes → String
  | .nd l => showList showNats l
  | .ints l => "ints" ++ showNats l

def showStrategy : Stored → String
  | .plain _ sh _ => "plain:" ++ showNats sh
  | .sentinel .. => "sentinel"
  | .jagged _ _ offs shs nones => "jagged:" ++ showNats offs ++ ":" ++ showShapes shs ++ ":" ++ showNats nones
  | .dict keys _ => "dict:" ++ showList hex keys

def answerWrite (xs : List Entry) : String :=
  match writeParam xs with
  | .reject => "reject"
  | .skip => "skip"
  | .ood => "ood"
  | .ok st =>
    match readParam xs.length st with
    | none => "readfail " ++ showStrategy st
    | some outs => "ok " ++ showStrategy st ++ " " ++ showList showROut outs

def parseFields? (s : String) : Option (List (String × Nat)) :=
  parseList? (fun p => do
    match (← splitTop p) with
    | [k, v] => pure ((← unhex k), (← parseNat? v))
    | _ => none) s

def sortNames (l : List String) : List String := l.foldl (fun a k => insKey k a) []

def answer : List String → String
  | ["write", es] => match parseList? parseEntry? es with
      | some xs => answerWrite xs
      | none => "bad-op"
  | ["domain", es] => match parseList? parseEntry? es with
      -- the hypotheses of `write_read_decided` evaluated on the value list: wf <np> <dtype> <NoSentinel> | dict | out
      | some xs =>
        if xs.any isDict && xs.all (fun e => isDict e || isNone e) then "dict"
        else match domainOf xs with
          | none => "out"
          | some (np, d) => "wf " ++ showBool np ++ " " ++ dtName d ++ " " ++ showBool (noSentinelB d xs)
      | none => "bad-op"
  | ["storeddt", es] => match parseList? parseEntry? es with
      -- dtype of the dataset `_writeParams` stores for the value list (entries may differ in numeric kind)
      | some xs => match writeParam xs with
        | .ok (.plain dt _ _) => dtName dt
        | .ok (.sentinel dt _) => dtName dt
        | .ok (.jagged dt _ _ _ _) => dtName dt
        | .ok (.dict _ _) => "dict"
        | .reject => "reject"
        | .skip => "skip"
        | .ood => "ood"
      | none => "bad-op"
  | ["norm", es] => match parseList? parseEntry? es with
      | some xs => showList showROut (xs.map (normalise (jaggedTest xs)))
      | none => "bad-op"
  | ["promote", a, c] => match parseDT? a, parseDT? c with
      | some a, some c => (if promote a c = .str then "s" else kindOf (promote a c)) ++ toString (promote a c).bits
      | _, _ => "bad-op"
  | ["readisnone", dt, v] => match parseDT? dt, parseSV? v with
      | some dt, some v => showBool (readIsNone dt v)
      | _, _ => "bad-op"
  | ["replnones", es] => match parseList? parseEntry? es with
      | some xs => match replaceNones xs with
        | none => "reject"
        | some (dt, data) => "ok " ++ dtName dt ++ " " ++ showList showSV data
      | none => "bad-op"
  | ["directarr", dt, size, rows] =>
      match parseDT? dt, parseNat? size, parseList? (fun r => if r = "N" then some none else (parseList? parseSV? r).map some) rows with
      | some dt, some size, some xs =>
        match replaceNonesArr dt size xs with
        | none => "reject"
        | some stored => showList (fun r => match readRowArr dt r with
            | .none => "N"
            | .full row => showList showSV row
            | .part row => "[p," ++ showList (fun o => match o with | none => "N" | some v => showSV v) row ++ "]") stored
      | _, _, _ => "bad-op"
  | ["tobytes", v, w] => match parseNat? v, parseNat? w with
      | some v, some w => showOpt showNats (toBytes v w)
      | _, _ => "bad-op"
  | ["frombytes", l] => match parseNatList? l with
      | some l => toString (fromBytes l)
      | none => "bad-op"
  | ["remap", inp, m] => match parseNat? inp, parseList? (fun s => if s = "_" then some none else s.toNat?.map some) m with
      | some inp, some m => showOpt toString (remapBits inp (fun i => (m[i]?).join))
      | _, _ => "bad-op"
  | ["flags", wf, wa, rf, ra, vals] =>
      match parseFields? wf, parseNat? wa, parseFields? rf, parseNat? ra, parseNatList? vals with
      | some wf, some wa, some rf, some ra, some vals =>
        let w : FlagCls := ⟨wf, wa⟩
        let r : FlagCls := ⟨rf, ra⟩
        match flagsPack w vals with
        | none => "reject"
        | some rows =>
          let order := w.sortedFields
          match flagsUnpack order r rows with
          | none => "unpackfail"
          | some (r', outs) =>
            showList showNats rows ++ " " ++ showList hex order ++ " " ++ toString r'.fields.length ++ " "
              ++ showList (fun v => showList hex (sortNames (flagsOn r' v))) outs
      | _, _, _, _, _ => "bad-op"
  | _ => "bad-op"

def main : IO Unit := loop answer
