import ArmiVerif.Model.Proto
import ArmiVerif.Model.Params
open ArmiVerif ArmiVerif.Proto ArmiVerif.Params

def showGrid : Option GridVal → String
  | none => "_"
  | some (a, b, c) => "(" ++ toString a ++ "," ++ toString b ++ "," ++ toString c ++ ")"

/-- canonical object line: values of its own parameters (definition order), collection `assigned`,
depth of the back-up chain, cache entries for the probed keys, grid, grid back-up depth, serial, read-only -/
def showObj (s : St) (keys : List Nat) (o : Nat) : String :=
  "v" ++ showList toString ((s.defs o).map (s.vals o)) ++
  " a" ++ toString (s.assigned o) ++
  " b" ++ toString (s.backup o).length ++
  " c" ++ showList (fun k => match s.cache o k with | none => "_" | some v => toString v) keys ++
  " cb" ++ toString (s.cacheBk o).length ++
  " g" ++ showGrid (s.grid o) ++
  " gb" ++ toString (s.gridBk o).length ++
  " s" ++ toString (s.serial o) ++
  " r" ++ showBool (s.readOnly o)

def cacheKeys : List Nat := [0, 1, 2]

/-! Interpreter plumbing only: the model's state is made of functions updated by wrapping closures;
after each request the driver re-tabulates them into arrays (extensionally the same functions on
every id that was ever created; ids beyond keep the initial defaults) so that look-ups stay O(1). -/
def lookupA {α} (a : Array α) (d : α) (o : Nat) : α := if h : o < a.size then a[o] else d

/-- NB: every array below is a `let` of a function whose result is a structure, so it is evaluated
once when `compact` runs; the fields are partial applications of `lookupA` to evaluated arrays. -/
def compact (s : St) (touched : List Nat) : St :=
  let n := s.next
  let md := (List.range n).foldl (fun m o => max m ((s.defs o).foldl max 0)) 0 + 1
  let rng := Array.range n
  let valsA := rng.map (fun o =>
    if o ∈ touched then
      lookupA ((Array.range ((s.defs o).foldl max 0 + 1)).map (s.vals o)) 0
    else s.vals o)
  let assignedA := rng.map s.assigned
  let backupA := rng.map s.backup
  let cacheA := rng.map (fun o => lookupA ((Array.range 3).map (s.cache o)) none)
  let cacheBkA := rng.map s.cacheBk
  let gridA := rng.map s.grid
  let gridBkA := rng.map s.gridBk
  let dassA := (Array.range md).map s.dassigned
  let dbkA := (Array.range md).map s.dbackup
  let defsA := rng.map s.defs
  let roA := rng.map s.readOnly
  let serA := rng.map s.serial
  { s with
    vals := lookupA valsA (s.vals n)
    assigned := lookupA assignedA (s.assigned n)
    backup := lookupA backupA (s.backup n)
    cache := lookupA cacheA (s.cache n)
    cacheBk := lookupA cacheBkA (s.cacheBk n)
    grid := lookupA gridA (s.grid n)
    gridBk := lookupA gridBkA (s.gridBk n)
    dassigned := lookupA dassA (s.dassigned md)
    dbackup := lookupA dbkA (s.dbackup md)
    defs := lookupA defsA (s.defs n)
    readOnly := lookupA roA (s.readOnly n)
    serial := lookupA serA (s.serial n) }

def touchedOf (s : St) (ws : List String) : List Nat :=
  match ws with
  | ["set", o, _, _] => (parseNat? o).toList
  | ["init", o, _, _] => (parseNat? o).toList
  | ["exit", objs, _] => (parseNatList? objs).getD []
  | ["deepcopy", objs] => (List.range ((parseNatList? objs).getD []).length).map (· + s.next)
  | ["pickle", objs] => (List.range ((parseNatList? objs).getD []).length).map (· + s.next)
  | ["create", _, _] => [s.next]
  | _ => []

def showObjs (s : St) (objs : List Nat) : String := ";".intercalate (objs.map (showObj s cacheKeys))

def inR (s : St) (l : List Nat) : Bool := l.all (fun x => x < s.next)

def parseGrid? (w : String) : Option (Option GridVal) :=
  if w = "_" then some none else
  match parseNatList? w with
  | some [a, b, c] => some (some (a, b, c))
  | _ => none

def stepLine (s : St) (ws : List String) : St × String :=
  let bad := (s, "bad-op")
  match ws with
  | ["reset"] => (St.empty, "ok")
  | ["create", ds, g] => match parseNatList? ds, parseGrid? g with
      | some ds, some g => let t := create s ds g; (t, "ok " ++ showObj t cacheKeys s.next)
      | _, _ => bad
  | ["set", o, x, v] => match parseNat? o, parseNat? x, parseNat? v with
      | some o, some x, some v =>
        if inR s [o] then
          let r := setP s o x v
          (r.1, (if r.2 then "ok " else "reject ") ++ showObj r.1 cacheKeys o ++ " d" ++ toString (r.1.dassigned x))
        else bad
      | _, _, _ => bad
  | ["cache", o, k, v] => match parseNat? o, parseNat? k, parseNat? v with
      | some o, some k, some v => if inR s [o] then let t := setCache s o k v; (t, "ok " ++ showObj t cacheKeys o) else bad
      | _, _, _ => bad
  | ["grid", o, g] => match parseNat? o, parseGrid? g with
      | some o, some (some g) => if inR s [o] then let t := setGrid s o g; (t, "ok " ++ showObj t cacheKeys o) else bad
      | _, _ => bad
  | ["enter", objs] => match parseNatList? objs with
      | some objs =>
        if inR s objs then
          if objs.any s.readOnly then (s, "reject")
          else let t := enter s objs; (t, "ok " ++ showObjs t objs)
        else bad
      | _ => bad
  | ["exit", objs, keep] => match parseNatList? objs, parseNatList? keep with
      | some objs, some keep =>
        if inR s objs then
          if objs.any (fun o => (s.backup o).isEmpty) then (s, "reject")
          else let t := exit s objs keep; (t, "ok " ++ showObjs t objs)
        else bad
      | _, _ => bad
  | ["deepcopy", objs] => match parseNatList? objs with
      | some objs =>
        if inR s objs then
          let t := objs.foldl deepcopyObj s
          (t, "ok " ++ showObjs t ((List.range objs.length).map (· + s.next)))
        else bad
      | _ => bad
  | ["pickle", objs] => match parseNatList? objs with
      | some objs =>
        if inR s objs then
          let t := objs.foldl pickleObj s
          (t, "ok " ++ showObjs t ((List.range objs.length).map (· + s.next)))
        else bad
      | _ => bad
  | ["readonly", objs] => match parseNatList? objs with
      | some objs => if inR s objs then let t := makeReadOnly s objs; (t, "ok " ++ showObjs t objs) else bad
      | _ => bad
  | ["dump", objs] => match parseNatList? objs with
      | some objs => if inR s objs then (s, showObjs s objs) else bad
      | _ => bad
  | ["ddump", ds] => match parseNatList? ds with
      | some ds => (s, showList (fun d => toString (s.dassigned d) ++ "/" ++ toString (s.dbackup d).length) ds)
      | _ => bad
  | ["dset", d, a] => match parseNat? d, parseNat? a with   -- fixture set-up: a definition's current `assigned`
      | some d, some a => ({ s with dassigned := upd s.dassigned d a }, "ok")
      | _, _ => bad
  | ["init", o, vs, a] => match parseNat? o, parseNatList? vs, parseNat? a with
      -- fixture set-up: current values (definition order) and `assigned` of an existing object
      | some o, some vs, some a =>
        if inR s [o] ∧ vs.length = (s.defs o).length then
          let tbl := (s.defs o).zip vs
          let t := { s with
            vals := upd s.vals o (fun x => match tbl.find? (fun p => p.1 == x) with | some p => p.2 | none => 0)
            assigned := upd s.assigned o a }
          (t, "ok " ++ showObj t cacheKeys o)
        else bad
      | _, _, _ => bad
  | ["serial", o, n] => match parseNat? o, parseNat? n with  -- fixture set-up: serial numbers of existing objects
      | some o, some n => if inR s [o] then ({ s with serial := upd s.serial o n, counter := max s.counter (n + 1) }, "ok") else bad
      | _, _ => bad
  | ["counter", n] => match parseNat? n with
      | some n => ({ s with counter := n }, "ok")
      | _ => bad
  | _ => bad

def stepC (s : St) (ws : List String) : St × String :=
  let r := stepLine s ws
  (compact r.1 (touchedOf s ws), r.2)

def main : IO Unit := loopState St.empty stepC
