import ArmiVerif.Model.Proto
import ArmiVerif.Model.Params
open ArmiVerif ArmiVerif.Proto ArmiVerif.Params

def showGrid : Option GridVal → String
  | none => "_"
  | some (a, b, c) => "(" ++ toString a ++ "," ++ toString b ++ "," ++ toString c ++ ")"

/-- canonical object line: values of its own parameters (definition order), collection `assigned`,
depth of the back-up chain, cache entries for the probed keys, grid, grid back-up depth, serial, read-only -/
def showObj (s : St) (keys : List Nat) (o : Nat) : String :=
  "v" ++ showList toString ((s.defs o).map (s.vals o)) ++
  " a" ++ toString (s.assigned o) ++
  " b" ++ toString (s.backup o).length ++
  " c" ++ showList (fun k => match s.cache o k with | none => "_" | some v => toString v) keys ++
  " cb" ++ toString (s.cacheBk o).length ++
  " g" ++ showGrid (s.grid o) ++
  " gb" ++ toString (s.gridBk o).length ++
  " s" ++ toString (s.serial o) ++
  " r" ++ showBool (s.readOnly o)

def cacheKeys : List Nat := [0, 1, 2]

/-! Interpreter plumbing only: the model's state is made of functions updated by wrapping closures.
Between requests the driver keeps the state as plain DATA (arrays), injects it into the model's
function-valued state for one step and extracts the result again (extensionally the same functions
on every id ever created and every parameter id up to the largest definition id; beyond that the
initial defaults).  This keeps look-ups O(1) (closures returning closures are eta-expanded by the
compiler, so caching inside closures does not work). -/
structure Data where
  vals : Array (Array Nat)
  assigned : Array Nat
  backup : Array (List Frame)
  cache : Array (Array (Option Nat))
  cacheBk : Array (List (Nat → Option Nat))
  grid : Array (Option GridVal)
  gridBk : Array (List GridVal)
  dassigned : Array Nat
  dbackup : Array (List Nat)
  defs : Array (List Nat)
  readOnly : Array Bool
  serial : Array Nat
  counter : Nat
  next : Nat
  md : Nat   -- 1 + largest definition id seen (cached)

def Data.empty : Data :=
  { vals := #[], assigned := #[], backup := #[], cache := #[], cacheBk := #[], grid := #[], gridBk := #[],
    dassigned := #[], dbackup := #[], defs := #[], readOnly := #[], serial := #[], counter := 0, next := 0, md := 1 }

def inject (d : Data) : St :=
  { vals := fun o x => (d.vals.getD o #[]).getD x 0
    assigned := fun o => d.assigned.getD o NEVER
    backup := fun o => d.backup.getD o []
    cache := fun o k => (d.cache.getD o #[]).getD k none
    cacheBk := fun o => d.cacheBk.getD o []
    grid := fun o => d.grid.getD o none
    gridBk := fun o => d.gridBk.getD o []
    dassigned := fun x => d.dassigned.getD x NEVER
    dbackup := fun x => d.dbackup.getD x []
    defs := fun o => d.defs.getD o []
    readOnly := fun o => d.readOnly.getD o false
    serial := fun o => d.serial.getD o 0
    counter := d.counter
    next := d.next }

def extract (s : St) (old : Data) (touched : List Nat) (dTouched : Bool := true) : Data :=
  let n := s.next
  let rng := Array.range n
  let md := ((List.range (n - old.next)).map (· + old.next)).foldl (fun m o => max m ((s.defs o).foldl max 0 + 1)) (max old.md old.dassigned.size)
  { vals := rng.map (fun o =>
      if o ∈ touched ∨ o ≥ old.vals.size then (Array.range ((s.defs o).foldl max 0 + 1)).map (fun x => s.vals o x)
      else old.vals.getD o #[])
    assigned := rng.map (fun o => s.assigned o)
    backup := rng.map (fun o => s.backup o)
    cache := rng.map (fun o => (Array.range 3).map (fun k => s.cache o k))
    cacheBk := rng.map (fun o => s.cacheBk o)
    grid := rng.map (fun o => s.grid o)
    gridBk := rng.map (fun o => s.gridBk o)
    -- (requests that cannot change a definition's flag / back-up chain keep the stored arrays; ids beyond their
    -- size read as the initial defaults on both sides)
    dassigned := if dTouched then (Array.range md).map (fun x => s.dassigned x) else old.dassigned
    dbackup := if dTouched then (Array.range md).map (fun x => s.dbackup x) else old.dbackup
    defs := rng.map (fun o => s.defs o)
    readOnly := rng.map (fun o => s.readOnly o)
    serial := rng.map (fun o => s.serial o)
    counter := s.counter
    next := n
    md := md }

def touchedOf (s : St) (ws : List String) : List Nat :=
  match ws with
  | ["set", o, _, _] => (parseNat? o).toList
  | ["poke", o, _, _] => (parseNat? o).toList
  | ["setrow", o, _, _, _] => (parseNat? o).toList
  | ["init", o, _, _] => (parseNat? o).toList
  | ["exit", objs, _] => (parseNatList? objs).getD []
  | ["exitm", objs, _, _] => (parseNatList? objs).getD []
  | ["deepcopy", objs] => (List.range ((parseNatList? objs).getD []).length).map (· + s.next)
  | ["pickle", objs] => (List.range ((parseNatList? objs).getD []).length).map (· + s.next)
  | ["create", _, _] => [s.next]
  | _ => []

/-- a material (an object without parameter collection and grid): only its cache and cache back-up chain are
observable -/
def showMat (s : St) (keys : List Nat) (m : Nat) : String :=
  "c" ++ showList (fun k => match s.cache m k with | none => "_" | some v => toString v) keys ++
  " cb" ++ toString (s.cacheBk m).length

def showMats (s : St) (ms : List Nat) : String := ";".intercalate (ms.map (showMat s cacheKeys))

/-- requests after which definition-level state may differ -/
def dTouchedOf (ws : List String) : Bool :=
  match ws.head? with
  | some w => ["set", "setrow", "setrefuse", "enter", "enterm", "exit", "exitm", "dset", "dsetall", "reset"].contains w
  | none => true

def showObjs (s : St) (objs : List Nat) : String := ";".intercalate (objs.map (showObj s cacheKeys))

def inR (s : St) (l : List Nat) : Bool := l.all (fun x => x < s.next)

def parseGrid? (w : String) : Option (Option GridVal) :=
  if w = "_" then some none else
  match parseNatList? w with
  | some [a, b, c] => some (some (a, b, c))
  | _ => none

/-- `p:c,c,c;p:c` (or `-` for no child lists) -/
def parseKids? (w : String) : Option (List (Nat × List Nat)) :=
  if w = "-" then some [] else
  (w.splitOn ";").mapM (fun part =>
    match part.splitOn ":" with
    | [p, cs] => do
        let p ← parseNat? p
        let cs ← parseNatList? ("[" ++ cs ++ "]")
        some (p, cs)
    | _ => none)

def stepLine (s : St) (ws : List String) : St × String :=
  let bad := (s, "bad-op")
  match ws with
  | ["reset"] => (St.empty, "ok")
  | ["create", ds, g] => match parseNatList? ds, parseGrid? g with
      | some ds, some g => let t := create s ds g; (t, "ok " ++ showObj t cacheKeys s.next)
      | _, _ => bad
  | ["set", o, x, v] => match parseNat? o, parseNat? x, parseNat? v with
      | some o, some x, some v =>
        if inR s [o] then
          let r := setP s o x v
          (r.1, (if r.2 then "ok " else "reject ") ++ showObj r.1 cacheKeys o ++ " d" ++ toString (r.1.dassigned x))
        else bad
      | _, _, _ => bad
  -- a custom setter as observed: the whole new row of the object (definition order) / a refusal
  | ["setrow", o, x, vs, ms] => match parseNat? o, parseNat? x, parseNatList? vs, parseNatList? ms with
      | some o, some x, some vs, some ms =>
        if inR s [o] ∧ vs.length = (s.defs o).length then
          let tbl := (s.defs o).zip vs
          let row := fun y => match tbl.find? (fun p => p.1 == y) with | some p => p.2 | none => s.vals o y
          let r := setC s (fun _ _ => some (row, ms)) o x 0
          (r.1, (if r.2 then "ok " else "reject ") ++ showObj r.1 cacheKeys o ++ " d" ++ toString (r.1.dassigned x))
        else bad
      | _, _, _, _ => bad
  | ["setrefuse", o, x] => match parseNat? o, parseNat? x with
      | some o, some x =>
        if inR s [o] then
          let r := setC s (fun _ _ => none) o x 0
          (r.1, "reject " ++ showObj r.1 cacheKeys o ++ " d" ++ toString (r.1.dassigned x))
        else bad
      | _, _ => bad
  | ["poke", o, x, v] => match parseNat? o, parseNat? x, parseNat? v with
      | some o, some x, some v => if inR s [o] then let t := pokeP s o x v; (t, "ok " ++ showObj t cacheKeys o) else bad
      | _, _, _ => bad
  | ["cache", o, k, v] => match parseNat? o, parseNat? k, parseNat? v with
      | some o, some k, some v => if inR s [o] then let t := setCache s o k v; (t, "ok " ++ showObj t cacheKeys o) else bad
      | _, _, _ => bad
  | ["grid", o, g] => match parseNat? o, parseGrid? g with
      | some o, some (some g) => if inR s [o] then let t := setGrid s o g; (t, "ok " ++ showObj t cacheKeys o) else bad
      | _, _ => bad
  | ["enter", objs] => match parseNatList? objs with
      | some objs =>
        if inR s objs then
          let r := tryEnter s objs
          if r.2 then (r.1, "ok " ++ showObjs r.1 objs) else (r.1, "reject")
        else bad
      | _ => bad
  -- StateRetainer over objects AND their materials (`_enterExitHelper`: composite, its material, then
  -- iterChildrenWithMaterials(deep=True)); materials are objects without definitions / grid
  | ["enterm", objs, mats] => match parseNatList? objs, parseNatList? mats with
      | some objs, some mats =>
        if inR s (objs ++ mats) then
          let r := tryEnter s (objs ++ mats)
          if r.2 then (r.1, "ok " ++ showObjs r.1 objs ++ " | " ++ showMats r.1 mats) else (r.1, "reject")
        else bad
      | _, _ => bad
  | ["exitm", objs, mats, keep] => match parseNatList? objs, parseNatList? mats, parseNatList? keep with
      | some objs, some mats, some keep =>
        if inR s (objs ++ mats) then
          if (objs ++ mats).any (fun o => (s.backup o).isEmpty) then (s, "reject")
          else let t := exit s (objs ++ mats) keep; (t, "ok " ++ showObjs t objs ++ " | " ++ showMats t mats)
        else bad
      | _, _, _ => bad
  | ["mcache", m, k, v] => match parseNat? m, parseNat? k, parseNat? v with
      | some m, some k, some v => if inR s [m] then let t := setCache s m k v; (t, "ok " ++ showMat t cacheKeys m) else bad
      | _, _, _ => bad
  | ["mdump", ms] => match parseNatList? ms with
      | some ms => if inR s ms then (s, showMats s ms) else bad
      | _ => bad
  | ["exit", objs, keep] => match parseNatList? objs, parseNatList? keep with
      | some objs, some keep =>
        if inR s objs then
          if objs.any (fun o => (s.backup o).isEmpty) then (s, "reject")
          else let t := exit s objs keep; (t, "ok " ++ showObjs t objs)
        else bad
      | _, _ => bad
  | ["deepcopy", objs] => match parseNatList? objs with
      | some objs =>
        if inR s objs then
          let t := objs.foldl deepcopyObj s
          (t, "ok " ++ showObjs t ((List.range objs.length).map (· + s.next)))
        else bad
      | _ => bad
  | ["pickle", objs] => match parseNatList? objs with
      | some objs =>
        if inR s objs then
          let t := objs.foldl pickleObj s
          (t, "ok " ++ showObjs t ((List.range objs.length).map (· + s.next)))
        else bad
      | _ => bad
  | ["readonly", objs] => match parseNatList? objs with
      | some objs => if inR s objs then let t := makeReadOnly s objs; (t, "ok " ++ showObjs t objs) else bad
      | _ => bad
  -- makeParametersReadOnly as the walk the code performs: `readonlytree <root> <p:c,c;p:c;...>` (child lists); answers the
  -- read-only flag of every object created so far
  | ["readonlytree", r, ks] => match parseNat? r, parseKids? ks with
      | some r, some tbl =>
        if inR s [r] ∧ tbl.all (fun pc => inR s (pc.1 :: pc.2)) then
          let kids := fun n => match tbl.find? (fun pc => pc.1 == n) with | some pc => pc.2 | none => []
          let t := makeReadOnlyTree s kids (s.next + 1) r
          let reach := iterDeep kids (s.next + 1) r
          let shown := (List.range s.next).filter (fun o => o == r || reach.contains o)
          (t, "ok " ++ " ".intercalate (shown.map (fun o => toString o ++ showBool (t.readOnly o))))
        else bad
      | _, _ => bad
  | ["unlock", o] => match parseNat? o with
      | some o => if inR s [o] then let r := unlock s o; (r.1, (if r.2 then "ok " else "reject ") ++ showObj r.1 cacheKeys o) else bad
      | _ => bad
  | ["dump", objs] => match parseNatList? objs with
      | some objs => if inR s objs then (s, showObjs s objs) else bad
      | _ => bad
  | ["ddump", ds] => match parseNatList? ds with
      | some ds => (s, showList (fun d => toString (s.dassigned d) ++ "/" ++ toString (s.dbackup d).length) ds)
      | _ => bad
  | ["dsetall", as] => match parseNatList? as with   -- fixture set-up: `assigned` of definitions 0..n-1
      | some as => ({ s with dassigned := fun d => if d < as.length then as.getD d NEVER else s.dassigned d }, "ok")
      | _ => bad
  | ["dset", d, a] => match parseNat? d, parseNat? a with   -- fixture set-up: a definition's current `assigned`
      | some d, some a => ({ s with dassigned := upd s.dassigned d a }, "ok")
      | _, _ => bad
  | ["init", o, vs, a] => match parseNat? o, parseNatList? vs, parseNat? a with
      -- fixture set-up: current values (definition order) and `assigned` of an existing object
      | some o, some vs, some a =>
        if inR s [o] ∧ vs.length = (s.defs o).length then
          let tbl := (s.defs o).zip vs
          let t := { s with
            vals := upd s.vals o (fun x => match tbl.find? (fun p => p.1 == x) with | some p => p.2 | none => 0)
            assigned := upd s.assigned o a }
          (t, "ok " ++ showObj t cacheKeys o)
        else bad
      | _, _, _ => bad
  | ["serial", o, n] => match parseNat? o, parseNat? n with  -- fixture set-up: serial numbers of existing objects
      | some o, some n => if inR s [o] then ({ s with serial := upd s.serial o n, counter := max s.counter (n + 1) }, "ok") else bad
      | _, _ => bad
  | ["counter", n] => match parseNat? n with
      | some n => ({ s with counter := n }, "ok")
      | _ => bad
  | _ => bad

/-! Interpreter plumbing for the two multi-object requests: `enter s objs` and `exit s objs keep` are folds of
per-object updates followed by one update of the definitions; the driver materialises the state (extract / inject,
extensionally the identity on every id in use) after each per-object step, so that look-ups never walk a chain of up to
`objs.length` nested update closures.  `allDefs` is computed on the state before the fold, as in the model
(`defs` does not change). -/
def enterFlat (d : Data) (objs : List Nat) : Data :=
  let D := allDefs (inject d) objs
  let d1 := objs.foldl (fun dd o => extract (backUpObj (inject dd) o) dd [] false) d
  extract (backUpDefs (inject d1) D) d1 [] true

def exitFlat (d : Data) (objs keep : List Nat) : Data :=
  let D := allDefs (inject d) objs
  let d1 := objs.foldl (fun dd o => extract (restoreObj keep (inject dd) o) dd [o] true) d
  extract (restoreDefs keep (inject d1) D) d1 [] true

def stepFast (d : Data) (ws : List String) : Option (Data × String) :=
  let s := inject d
  match ws with
  | ["enterm", objs, mats] => match parseNatList? objs, parseNatList? mats with
      | some objs, some mats =>
        if inR s (objs ++ mats) && !((objs ++ mats).any s.readOnly) then
          let d' := enterFlat d (objs ++ mats)
          let t := inject d'
          some (d', "ok " ++ showObjs t objs ++ " | " ++ showMats t mats)
        else none
      | _, _ => none
  | ["exitm", objs, mats, keep] => match parseNatList? objs, parseNatList? mats, parseNatList? keep with
      | some objs, some mats, some keep =>
        if inR s (objs ++ mats) && !((objs ++ mats).any (fun o => (s.backup o).isEmpty)) then
          let d' := exitFlat d (objs ++ mats) keep
          let t := inject d'
          some (d', "ok " ++ showObjs t objs ++ " | " ++ showMats t mats)
        else none
      | _, _, _ => none
  | _ => none

def stepSlow (d : Data) (ws : List String) : Data × String :=
  let s := inject d
  let r := stepLine s ws
  (extract r.1 d (touchedOf s ws) (dTouchedOf ws), r.2)

def stepC (d : Data) (ws : List String) : Data × String :=
  match stepFast d ws with
  | some r => r
  | none => stepSlow d ws

def main : IO Unit := loopState Data.empty stepC
