import ArmiVerif.Model.Proto
import ArmiVerif.Model.Schedule
open ArmiVerif ArmiVerif.Proto ArmiVerif.Schedule

def showHook : Hook → String
  | .BOL => "BOL" | .BOC => "BOC" | .EveryNode => "EveryNode" | .Coupled => "Coupled"
  | .EOC => "EOC" | .EOL => "EOL" | .DbWrite => "DbWrite"

def parseHook? : String → Option Hook
  | "BOL" => some .BOL | "BOC" => some .BOC | "EveryNode" => some .EveryNode
  | "Coupled" => some .Coupled | "EOC" => some .EOC | "EOL" => some .EOL | _ => none

def showEvent (e : Event) : String :=
  showHook e.hook ++ "(" ++ toString e.iface ++ "," ++ showList toString e.args ++ ","
    ++ toString e.rc ++ "," ++ toString e.rn ++ ")"

def bit? : Nat → Option Bool
  | 0 => some false | 1 => some true | _ => none

def parseIface? (s : String) : Option Iface := do
  match ← parseNatList? s with
  | [n, en, bf, rev, cp] => some ⟨n, ← bit? en, ← bit? bf, ← bit? rev, ← bit? cp⟩
  | _ => none

def parseStack? := parseList? parseIface?

def parsePairs? (s : String) : Option (List (Nat × Nat)) := do
  (← parseList? parseNatList? s).mapM (fun l => match l with | [a, b] => some (a, b) | _ => none)

def parseQuads? (s : String) : Option (List (Nat × Nat × Nat × Nat)) := do
  (← parseList? parseNatList? s).mapM
    (fun l => match l with | [a, b, c, d] => some (a, b, c, d) | _ => none)

def showPairN (p : Nat × Nat) : String := "(" ++ toString p.1 ++ "," ++ toString p.2 ++ ")"

def natOfInt? (s : String) : Option (Option Nat) :=
  (parseInt? s).map (fun k => if k < 0 then none else some k.toNat)

def answer : List String → String
  | ["run", nC, bs, sc, sn, stack, dfr, dc, cp, mi, skip, db, halt, conv, bolset] =>
    match (if bolset = "_" then some none else (parseNatList? bolset).bind (fun l => match l with | [a, b, c] => some (some (a, b, c)) | _ => none)) with
    | none => "bad-op"
    | some bolSet =>
    match parseNat? nC, parseNatList? bs, parseNat? sc, parseNat? sn, parseStack? stack,
      parseNatList? dfr, parseNat? dc, parseBool? cp, parseNat? mi, parseNatList? skip,
      parseNat? db, parsePairs? halt, parseQuads? conv with
    | some nC, some bs, some sc, some sn, some stack, some dfr, some dc, some cp, some mi,
      some skip, some db, some halt, some conv =>
      let cfg : Config := {
        nCycles := nC, burnSteps := bs, startCycle := sc, startNode := sn, stack := stack,
        deferredNames := dfr, deferredCycle := dc, couplingOn := cp, maxIters := mi,
        skipCycles := skip, dbName := db,
        halt := fun i c => halt.contains (i, c),
        conv := fun i c n it => conv.contains (i, c, n, it), bolSet := bolSet }
      if wellFormed cfg then ";".intercalate ((run cfg).map showEvent) else "reject"
    | _, _, _, _, _, _, _, _, _, _, _, _, _ => "bad-op"
  | ["active", h, excl, cycle, stack, dfr, dc] =>
    match parseHook? h, parseNatList? excl, parseNat? cycle, parseStack? stack, parseNatList? dfr,
      parseNat? dc with
    | some h, some excl, some cycle, some stack, some dfr, some dc =>
      let cfg : Config := {
        nCycles := 0, burnSteps := [], startCycle := 0, startNode := 0, stack := stack,
        deferredNames := dfr, deferredCycle := dc, couplingOn := false, maxIters := 0,
        skipCycles := [], dbName := 0, halt := fun _ _ => false, conv := fun _ _ _ _ => false }
      showList (fun i => toString i.name) (active cfg h excl cycle)
    | _, _, _, _, _, _ => "bad-op"
  | ["halts", cycle, stack, dfr, dc, halt] =>
    match parseNat? cycle, parseStack? stack, parseNatList? dfr, parseNat? dc, parsePairs? halt with
    | some cycle, some stack, some dfr, some dc, some halt =>
      let cfg : Config := {
        nCycles := 0, burnSteps := [], startCycle := 0, startNode := 0, stack := stack,
        deferredNames := dfr, deferredCycle := dc, couplingOn := false, maxIters := 0,
        skipCycles := [], dbName := 0, halt := fun i c => halt.contains (i, c), conv := fun _ _ _ _ => false }
      showBool (haltsAt cfg cycle)
    | _, _, _, _, _ => "bad-op"
  | ["npc", bs] => match parseNatList? bs with
    | some bs => showList toString (nodesPerCycle bs) | _ => "bad-op"
  | ["cumnode", bs, c, n] => match parseNatList? bs, parseNat? c, parseNat? n with
    | some bs, some c, some n => toString (cumNode bs c n) | _, _, _ => "bad-op"
  | ["nodeofcum", bs, k] => match parseNatList? bs, natOfInt? k with
    | some bs, some (some k) => showOpt showPairN (nodeOfCum bs k)
    | some _, some none => "reject"
    | _, _ => "bad-op"
  | ["stepofcum", bs, t] => match parseNatList? bs, natOfInt? t with
    | some bs, some (some t) => showOpt showPairN (stepOfCum bs t)
    | some _, some none => "reject"
    | _, _ => "bad-op"
  | ["prev", bs, c, n] => match parseNatList? bs, parseNat? c, parseNat? n with
    | some bs, some c, some n => showOpt showPairN (prevNode bs c n) | _, _, _ => "bad-op"
  | ["simplecs", nC, b, afs, af, cls, cl, pfs] =>
    let optList? (s : String) : Option (Option (List Rat)) :=
      if s = "_" then some none else (parseRatList? s).map some
    let optRat? (s : String) : Option (Option Rat) :=
      if s = "_" then some none else (parseRat? s).map some
    match parseNat? nC, parseNat? b, optList? afs, optRat? af, optList? cls, optRat? cl, optList? pfs with
    | some nC, some b, some afs, some af, some cls, some cl, some pfs =>
      let av := availabilitySimple afs af nC
      let cl := cycleLengthsSimple cls cl nC
      showList showRat av ++ ";" ++ showList showRat cl ++ ";"
        ++ showList (showList showRat) (stepLengthsSimple cl av b) ++ ";"
        ++ showList (showList showRat) (powerFractionsSimple pfs nC b)
    | _, _, _, _, _, _, _ => "bad-op"
  | ["steps", "simple", lens, avails, b] =>
    match parseRatList? lens, parseRatList? avails, parseNat? b with
    | some lens, some avails, some b =>
      showList (showList showRat) (stepLengthsSimple lens avails b)
    | _, _, _ => "bad-op"
  | ["steps", "stepdays", a, d] => match parseRat? a, parseRatList? d with
    | some a, some d => if a = 0 then "reject" else
        showList showRat (stepLengthsDetailed a (.stepDays d)) ++ ";" ++ showRat (cycleLengthDetailed a (.stepDays d))
    | _, _ => "bad-op"
  | ["steps", "cum", a, d] => match parseRat? a, parseRatList? d with
    | some a, some d => if a = 0 then "reject" else
        showList showRat (stepLengthsDetailed a (.cumulativeDays d)) ++ ";" ++ showRat (cycleLengthDetailed a (.cumulativeDays d))
    | _, _ => "bad-op"
  | ["steps", "bl", a, b, l] => match parseRat? a, parseNat? b, parseRat? l with
    | some a, some b, some l => if a = 0 ∨ b = 0 then "reject" else
        showList showRat (stepLengthsDetailed a (.stepsAndLength b l)) ++ ";" ++ showRat (cycleLengthDetailed a (.stepsAndLength b l))
    | _, _, _ => "bad-op"
  | ["expand", items] =>
    let item? (t : String) : Option RItem :=
      if t.endsWith "R" then (parseNat? (String.ofList t.toList.dropLast)).map RItem.rep else (parseRat? t).map RItem.val
    match parseList? item? items with
    | some l => (match expandRepeated l with | some r => showList showRat r | none => "reject")
    | none => "bad-op"
  | ["couple", cap, names, cmaxes, nums, tols, vbT, vaT] =>
    -- `_performTightCoupling` over real TightCouplers: cap = the run setting; per coupler its name, OWN maxIters,
    -- starting _numIters, tolerance; value tables (per coupler, per round) before / after each round
    match parseNat? cap, parseNatList? names, parseNatList? cmaxes, parseNatList? nums, parseRatList? tols,
      parseList? parseRatList? vbT, parseList? parseRatList? vaT with
    | some cap, some names, some cmaxes, some nums, some tols, some vbT, some vaT =>
      let n := names.length
      if cmaxes.length != n || nums.length != n || tols.length != n || vbT.length != n || vaT.length != n then "bad-op"
      else
        let ks : List (Nat × Coupler) := (List.range n).map (fun i =>
          (names.getD i 0, { tol := tols.getD i 0, maxIters := cmaxes.getD i 0, numIters := nums.getD i 0, prev := none }))
        let tbl := fun (T : List (List Rat)) (nm it : Nat) => (T.getD (names.idxOf nm) []).getD it 0
        match coupledLoopS (tbl vbT) (tbl vaT) cap 0 ks with
        | none => "reject"
        | some r => toString r.1 ++ " " ++ toString r.2.1 ++ " " ++ showList (fun p => toString p.2.numIters) r.2.2
    | _, _, _, _, _, _, _ => "bad-op"
  | _ => "bad-op"

def main : IO Unit := loop answer
