import ArmiVerif.Model.Proto
import ArmiVerif.Model.Settings
open ArmiVerif ArmiVerif.Proto ArmiVerif.Settings

/-!
Line protocol for the C17 settings model (stateful; values are interned numbers).
  new                          reset everything
  def NAME DEF                 declare a setting (value = default)
  old NEW OLD EXP|_            declare an old name of NEW with expiry ordinal
  today N
  sch NAME RAW RES|x           schema table: schema NAME RAW = some RES / none
  dmp NAME VAL RAW             dump table (Setting.dump + YAML round trip)
  stp RAW STAMPED              stamp table on document values;  stpv VAL STAMPED on stored values
  blank TOK
  set NAME RAW                 -> ok | invalid | nonexistent          (object A)
  get NAME                     -> TOK | none
  off                          -> [NAME=TOK,...] entries with value != default
  names                        -> [NAME,...]
  reset                        A := fresh A
  write STYLE [USER,...]       -> [NAME=RAW,...]   (and the side effect on A)
  mkren                        -> ok | reject
  rename NAME                  -> NAME' T|F
  read [NAME=RAW,...]          -> ok|reject inv=[...]   (A := result)
  modified [K=V | K=@D:V ,...] -> ok|reject            (B := copy of A with changes)
  optsch T|F [OPT,..] RAW FALLBACK|x   -> x | TOK     Setting._setSchema with the CURRENT option list (fallback = Coerce(type(default)) verdict)
  numsch int|float MIN|_ MAX|_ T|F T|F i:N|f:Q|b:T|F   -> x | i:N | f:Q     All(Coerce(T), Range(min, max, min_included, max_included))
  base / clr                   remember the tables and the application's definitions / restore them, A := fresh, B := []
  revert NAME                  Setting.revertToDefault on A
  chdef NAME RAW               -> ok | invalid | nonexistent   Setting.changeDefault on A (default moves even when refused)
  dup                          B := copy of A through __setstate__ (deepcopy / duplicate / pickle)
  swap                         exchange A and B
  isdef NAME                   -> T | F | none    value == default on A
  push / pop                   save / restore A
  setB/getB/offB/namesB        as above on B
-/

structure St where
  a : Reg Nat := []
  b : Reg Nat := []
  olds : List OldName := []
  today : Int := 0
  sch : List ((String × Nat) × Option Nat) := []
  dmp : List ((String × Nat) × Nat) := []
  stp : List (Nat × Nat) := []
  stpv : List (Nat × Nat) := []
  blank : Nat := 0
  baseSch : List ((String × Nat) × Option Nat) := []
  baseDmp : List ((String × Nat) × Nat) := []
  baseStp : List (Nat × Nat) := []
  baseStpv : List (Nat × Nat) := []
  saved : Reg Nat := []
  /-- the application's definitions (registry at `base` time): what `__setstate__` rebuilds a copy from -/
  app : Reg Nat := []

def St.schema (s : St) : String → Nat → Option Nat := fun n v =>
  match s.sch.find? (fun p => p.1.1 == n && p.1.2 == v) with
  | some p => p.2
  | none => none

def St.dump (s : St) : String → Nat → Nat := fun n v =>
  match s.dmp.find? (fun p => p.1.1 == n && p.1.2 == v) with
  | some p => p.2
  | none => 999999999

def tab (l : List (Nat × Nat)) : Nat → Nat := fun v =>
  match l.find? (fun p => p.1 == v) with
  | some p => p.2
  | none => 999999998

def showOff (r : Reg Nat) : String :=
  showList (fun e => e.name ++ "=" ++ toString e.value) (r.filter offDefault)

def showStatus : Status → String
  | .ok => "ok" | .invalid => "invalid" | .nonexistent => "nonexistent"

def parseStyle? : String → Option Style
  | "short" => some .short | "medium" => some .medium | "full" => some .full | _ => none

def parseKV? (s : String) : Option (String × Nat) :=
  match s.splitOn "=" with
  | [k, v] => v.toNat?.map (fun n => (k, n))
  | _ => none

def parseNew? (s : String) : Option (String × NewItem Nat) :=
  match s.splitOn "=" with
  | [k, v] =>
    if v.startsWith "@" then
      match ((v.drop 1).toString).splitOn ":" with
      | [d, x] => do let d ← d.toNat?; let x ← x.toNat?; pure (k, NewItem.obj d x)
      | _ => none
    else v.toNat?.map (fun n => (k, NewItem.val n))
  | _ => none

def renamer (s : St) : Option Renames := mkRenamer s.today s.olds ⟨[], []⟩

def step (s : St) : List String → St × String
  | ["new"] => ({}, "ok")
  | ["base"] => ({ s with baseSch := s.sch, baseDmp := s.dmp, baseStp := s.stp, baseStpv := s.stpv, app := fresh s.a }, "ok")
  | ["clr"] => ({ s with sch := s.baseSch, dmp := s.baseDmp, stp := s.baseStp, stpv := s.baseStpv,
                         a := if s.app.isEmpty then fresh s.a else s.app, b := [] }, "ok")
  | ["revert", n] => ({ s with a := revert s.a n }, "ok")
  | ["chdef", n, raw] => match raw.toNat? with
      | some raw => let r := changeDefault s.schema s.a n raw; ({ s with a := r.1 }, showStatus r.2)
      | none => (s, "bad-op")
  | ["dup"] => ({ s with b := copyReg (if s.app.isEmpty then fresh s.a else s.app) s.a }, "ok")
  | ["swap"] => ({ s with a := s.b, b := s.a }, "ok")
  | ["isdef", n] => (s, match isDefault s.a n with | some b => showBool b | none => "none")
  | ["push"] => ({ s with saved := s.a }, "ok")
  | ["pop"] => ({ s with a := s.saved }, "ok")
  | ["def", n, d] => match d.toNat? with
      | some d => ({ s with a := s.a ++ [⟨n, d, d⟩] }, "ok") | none => (s, "bad-op")
  | ["old", new, old, e] =>
      if e = "_" then ({ s with olds := s.olds ++ [(new, old, none)] }, "ok")
      else match e.toInt? with
        | some e => ({ s with olds := s.olds ++ [(new, old, some e)] }, "ok") | none => (s, "bad-op")
  | ["today", n] => match n.toInt? with | some n => ({ s with today := n }, "ok") | none => (s, "bad-op")
  | ["sch", n, raw, res] => match raw.toNat? with
      | some raw =>
        if res = "x" then ({ s with sch := ((n, raw), none) :: s.sch }, "ok")
        else match res.toNat? with
          | some r => ({ s with sch := ((n, raw), some r) :: s.sch }, "ok") | none => (s, "bad-op")
      | none => (s, "bad-op")
  | ["dmp", n, v, raw] => match v.toNat?, raw.toNat? with
      | some v, some raw => ({ s with dmp := ((n, v), raw) :: s.dmp }, "ok") | _, _ => (s, "bad-op")
  | ["stp", a, b] => match a.toNat?, b.toNat? with
      | some a, some b => ({ s with stp := (a, b) :: s.stp }, "ok") | _, _ => (s, "bad-op")
  | ["stpv", a, b] => match a.toNat?, b.toNat? with
      | some a, some b => ({ s with stpv := (a, b) :: s.stpv }, "ok") | _, _ => (s, "bad-op")
  | ["blank", a] => match a.toNat? with | some a => ({ s with blank := a }, "ok") | none => (s, "bad-op")
  | ["set", n, raw] => match raw.toNat? with
      | some raw => let r := assign s.schema s.a n raw; ({ s with a := r.1 }, showStatus r.2)
      | none => (s, "bad-op")
  | ["setB", n, raw] => match raw.toNat? with
      | some raw => let r := assign s.schema s.b n raw; ({ s with b := r.1 }, showStatus r.2)
      | none => (s, "bad-op")
  | ["get", n] => (s, match valueOf s.a n with | some v => toString v | none => "none")
  | ["getB", n] => (s, match valueOf s.b n with | some v => toString v | none => "none")
  | ["off"] => (s, showOff s.a)
  | ["offB"] => (s, showOff s.b)
  | ["names"] => (s, showList id (names s.a))
  | ["namesB"] => (s, showList id (names s.b))
  | ["reset"] => ({ s with a := fresh s.a }, "ok")
  | ["write", st, user] => match parseStyle? st, parseList? some user with
      | some st, some user =>
        let doc := writeDoc s.dump (tab s.stp) s.blank st user s.a
        ({ s with a := writeEffect (tab s.stpv) st user s.a },
          showList (fun p => p.1 ++ "=" ++ toString p.2) doc)
      | _, _ => (s, "bad-op")
  | ["mkren"] => (s, match renamer s with | some _ => "ok" | none => "reject")
  | ["rename", n] => match renamer s with
      | some rn => let r := renameSetting (names s.a) rn n; (s, r.1 ++ " " ++ showBool r.2)
      | none => (s, "reject")
  | ["read", doc] => match parseList? parseKV? doc, renamer s with
      | some doc, some rn =>
        let res := readDoc s.schema rn s.a doc
        ({ s with a := res.reg }, (if res.ok then "ok" else "reject") ++ " inv=" ++ showList id res.invalid)
      | some _, none => (s, "reject-renamer")
      | none, _ => (s, "bad-op")
  | ["optsch", enf, opts, raw, fb] => match parseBool? enf, parseList? (fun x => x.toNat?) opts, raw.toNat? with
      | some enf, some opts, some raw =>
        let fallback : Nat → Option Nat := fun _ => if fb = "x" then none else fb.toNat?
        (s, match optSchema enf opts fallback raw with | some v => toString v | none => "x")
      | _, _, _ => (s, "bad-op")
  | ["numlist", t, mn, mx, mi, xi, raws] =>
      let t? : Option NumType := match t with | "int" => some .int | "float" => some .float | _ => none
      let opt : String → Option (Option Rat) := fun x => if x = "_" then some none else (parseRat? x).map some
      let raw? : String → Option RawNum := fun raw => match raw.splitOn ":" with
        | ["i", v] => v.toInt?.map RawNum.int
        | ["f", v] => (parseRat? v).map RawNum.float
        | ["b", v] => (parseBool? v).map RawNum.bool
        | _ => none
      match t?, opt mn, opt mx, parseBool? mi, parseBool? xi, parseList? raw? raws with
      | some t, some mn, some mx, some mi, some xi, some raws =>
        (s, match numListSchema t ⟨mn, mx, mi, xi⟩ raws with
          | none => "x"
          | some vs => showList (fun v => match v with | .int i => "i:" ++ toString i | .float q => "f:" ++ showRat q) vs)
      | _, _, _, _, _, _ => (s, "bad-op")
  | ["numsch", t, mn, mx, mi, xi, raw] =>
      let t? : Option NumType := match t with | "int" => some .int | "float" => some .float | _ => none
      let opt : String → Option (Option Rat) := fun x => if x = "_" then some none else (parseRat? x).map some
      let raw? : Option RawNum := match raw.splitOn ":" with
        | ["i", v] => v.toInt?.map RawNum.int
        | ["f", v] => (parseRat? v).map RawNum.float
        | ["b", v] => (parseBool? v).map RawNum.bool
        | _ => none
      match t?, opt mn, opt mx, parseBool? mi, parseBool? xi, raw? with
      | some t, some mn, some mx, some mi, some xi, some raw =>
        (s, match numSchema t ⟨mn, mx, mi, xi⟩ raw with
          | none => "x"
          | some (.int i) => "i:" ++ toString i
          | some (.float q) => "f:" ++ showRat q)
      | _, _, _, _, _, _ => (s, "bad-op")
  | ["modified", news] => match parseList? parseNew? news with
      | some news => match modifiedReg s.schema (copyReg (if s.app.isEmpty then fresh s.a else s.app) s.a) news with
        | some r => ({ s with b := r }, "ok")
        | none => (s, "reject")
      | none => (s, "bad-op")
  | _ => (s, "bad-op")

def main : IO Unit := loopState ({} : St) step
