import ArmiVerif.Model.Proto
import ArmiVerif.Model.Shuffle
open ArmiVerif ArmiVerif.Proto ArmiVerif.Shuffle

/-
Stateful line protocol for Model/Shuffle.lean (ids are object numbers handed out by the harness).
  init TRACK [[id,i,j,[[bid,stat],..]],..] [[id,[[bid,stat],..]],..]   core children, sfp children
  swap ID1 ID2 | cascade [ID,..] | dnew [id,[[bid,stat],..]] OUT | dsfp IN OUT
  remove ID T/F | add [id,[[bid,stat],..]] I J
  sfpnext NC [[i,j],..]    -> [i,j] the pool cell SpentFuelPool._getNextLocation picks (stateless)
Response: canonical state, or `reject` (state unchanged) where the real call raises; `add` that raises prints the
state it leaves behind followed by ` raised`.
-/

structure DS where
  st : St
  cells : List Cell
  ids : List Nat
  bids : List Nat

def parseBlk? (s : String) : Option Blk := do
  match ← splitTop s with
  | [b, t] => some ⟨← parseNat? b, (← parseNat? t) != 0⟩
  | _ => none

def parseAsm? (s : String) : Option Asm := do
  match ← splitTop s with
  | [id, bl] => some ⟨← parseNat? id, ← parseList? parseBlk? bl⟩
  | _ => none

def parseKid? (s : String) : Option (Asm × Cell) := do
  match ← splitTop s with
  | [id, i, j, bl] => some (⟨← parseNat? id, ← parseList? parseBlk? bl⟩, (← parseInt? i, ← parseInt? j))
  | _ => none

def showAsm (a : Asm) : String := "[" ++ toString a.id ++ "," ++ showList (fun b => toString b.bid) a.blocks ++ "]"

def showDS (d : DS) : String :=
  let s := d.st
  "core=" ++ showList (fun p => "[" ++ toString p.1.id ++ "," ++ toString p.2.1 ++ "," ++ toString p.2.2 ++ ","
      ++ showList (fun b => toString b.bid) p.1.blocks ++ "]") s.core
  ++ " byLoc=" ++ showList id (d.cells.filterMap (fun c => (s.byLoc c).map
      (fun v => "[" ++ toString c.1 ++ "," ++ toString c.2 ++ "," ++ toString v ++ "]")))
  ++ " byName=" ++ showList toString (d.ids.filter s.byName)
  ++ " bbn=" ++ showList toString (d.bids.filter s.bbn)
  ++ " sfp=" ++ showList showAsm s.sfp

def know (d : DS) (a : Asm) : DS :=
  { d with ids := if d.ids.contains a.id then d.ids else d.ids ++ [a.id],
           bids := d.bids ++ (a.blocks.map (·.bid)).filter (fun b => !d.bids.contains b) }

def emptyDS : DS := ⟨⟨[], fun _ => none, fun _ => false, fun _ => false, [], false⟩, [], [], []⟩

def upd (d : DS) (r : Option St) : DS × String :=
  match r with
  | none => (d, "reject")
  | some s => let d' := { d with st := s }; (d', showDS d')

def stepLine (d : DS) : List String → DS × String
  | ["init", track, kids, sfp] =>
    match parseBool? track, parseList? parseKid? kids, parseList? parseAsm? sfp with
    | some t, some ks, some sf =>
      let all := ks.map (·.1) ++ sf
      let st : St := initSt ks sf t
      let d' : DS := ⟨st, ks.map (·.2), all.map (·.id), all.flatMap (fun a => a.blocks.map (·.bid))⟩
      (d', showDS d')
    | _, _, _ => (d, "bad-op")
  | ["sfpnext", nc, filled] =>
    match parseNat? nc, parseList? (fun w => do
        match (← splitTop w) with
        | [i, j] => some ((← parseInt? i), (← parseInt? j))
        | _ => none) filled with
    | some nc, some fl => (d, match sfpNext nc fl with
        | some c => "[" ++ toString c.1 ++ "," ++ toString c.2 ++ "]"
        | none => "none")
    | _, _ => (d, "bad-op")
  | ["swap", a, b] => match parseNat? a, parseNat? b with
    | some a, some b => upd d (swap d.st a b)
    | _, _ => (d, "bad-op")
  | ["cascade", l] => match parseList? (fun w => if w = "_" then some none else (parseNat? w).map some) l with
    | some l =>
      let r := cascadeOpt d.st l
      let d' := { d with st := r.1 }
      (d', showDS d' ++ (if r.2 then " raised" else ""))
    | none => (d, "bad-op")
  | ["dnew", a, o] => match parseAsm? a, parseNat? o with
    | some a, some o =>
      let d1 := know d a
      let r := dischargeSwapFresh d1.st a o
      let d' := { d1 with st := r.1 }
      (d', showDS d' ++ (if r.2 then " raised" else ""))
    | _, _ => (d, "bad-op")
  | ["dsfp", i, o] => match parseNat? i, parseNat? o with
    | some i, some o => match d.st.sfp.find? (fun a => a.id = i) with
      | some a => upd d (dischargeSwap d.st a o)
      | none => (d, "bad-op")
    | _, _ => (d, "bad-op")
  | ["remove", i, dis] => match parseNat? i, parseBool? dis with
    | some i, some dis => upd d (removeAssembly d.st i dis)
    | _, _ => (d, "bad-op")
  | ["add", a, i, j] => match parseAsm? a, parseInt? i, parseInt? j with
    | some a, some i, some j =>
      let d1 := know d a
      let r := coreAdd d1.st a (i, j)
      let d' := { d1 with st := r.st }
      (d', showDS d' ++ (if r.raised then " raised" else ""))
    | _, _, _ => (d, "bad-op")
  | _ => (d, "bad-op")

/-! name-level layer: `names TRACK NEXT [id,num,[[bid,n,k,stat],..]] [id,num,[[bid,n,k,stat],..]] PURGELATER`
  (fresh incoming, core outgoing whose names are registered) -> incoming / outgoing block names after
  `dischargeSwap`, and what `blocksByName` returns for every block name seen before or after (then, if PURGELATER,
  the same lookups after the incoming assembly was purged). -/

def parseNBlk? (s : String) : Option NBlk := do
  match ← splitTop s with
  | [b, n, k, t] => some ⟨← parseNat? b, (← parseInt? n, ← parseNat? k), (← parseNat? t) != 0⟩
  | _ => none

def parseNAsm? (s : String) : Option NAsm := do
  match ← splitTop s with
  | [id, num, bl] => some ⟨← parseNat? id, ← parseInt? num, ← parseList? parseNBlk? bl⟩
  | _ => none

def showNB (b : NBlk) : String := "[" ++ toString b.bid ++ "," ++ toString b.name.1 ++ "," ++ toString b.name.2 ++ "]"

def namesAnswer (track : Bool) (next : Int) (inc out : NAsm) (later : Bool) : String :=
  let s0 : NSt := ⟨fun n => if n = out.num then some out.id else none,
                   fun x => (out.blocks.find? (fun b => b.name = x)).map (·.bid), next⟩
  let r := nDischarge s0 inc out track
  let keys := (inc.blocks ++ out.blocks ++ r.2.1.blocks ++ r.2.2.blocks).map (·.name) |>.eraseDups
  let look (s : NSt) := showList (fun k => "[" ++ toString k.1 ++ "," ++ toString k.2 ++ "," ++
      (match s.bbn k with | some v => toString v | none => "_") ++ "]") keys
  "inc=" ++ toString r.2.1.num ++ showList showNB r.2.1.blocks ++ " out=" ++ showList showNB r.2.2.blocks
    ++ " byName=" ++ showList (fun n => match r.1.byName n with | some v => toString v | none => "_") [r.2.1.num, out.num]
    ++ " bbn=" ++ look r.1 ++ (if later then " afterPurge=" ++ look (nPurge r.1 r.2.1) else "")

def stepLine' (d : DS) : List String → DS × String
  | ["names", t, n, i, o, l] =>
    match parseBool? t, parseInt? n, parseNAsm? i, parseNAsm? o, parseBool? l with
    | some t, some n, some i, some o, some l => (d, namesAnswer t n i o l)
    | _, _, _, _, _ => (d, "bad-op")
  | ws => stepLine d ws

def main : IO Unit := loopState emptyDS stepLine'
