import ArmiVerif.Model.Proto
import ArmiVerif.Model.SnapStore
open ArmiVerif ArmiVerif.Proto ArmiVerif.Schedule ArmiVerif.SnapStore

structure DS where
  db : Option Store := none
  cur : Snap := { cycle := 0, node := 0, objs := [] }
  pst : PState := { assigned := [], live := [], cycle := 0, node := 0 }
  pgroups : List PSnap := []
  pdflt : List (Nat × Int) := []

def dfltOf (st : DS) (p : Nat) : Int := (st.pdflt.lookup p).getD 0

def parseOptInt? (s : String) : Option (Option Int) :=
  if s = "_" then some none else (parseInt? s).map some

def parseObjs? (s : String) : Option Objs := do
  (← parseList? (parseList? some) s).mapM (fun l => match l with
    | [a, b] => do some (← parseNat? a, ← parseOptInt? b)
    | _ => none)

def showObjs (o : Objs) : String :=
  showList (fun p => "[" ++ toString p.1 ++ "," ++ (match p.2 with | none => "_" | some v => toString v) ++ "]") o

def lab (s : String) : List Nat := if s = "-" then [] else s.toList.map Char.toNat
def showName (k : Key) : String := String.ofList ((name k).map Char.ofNat)

def showSnap (s : Snap) : String := toString s.cycle ++ " " ++ toString s.node ++ " " ++ showObjs s.objs

def showPairN (p : Nat × Nat) : String := "(" ++ toString p.1 ++ "," ++ toString p.2 ++ ")"

def showStore (s : Store) : String :=
  "work=" ++ showBool s.inWork ++ " success=" ++ showBool s.success ++ " open=" ++ showBool s.isOpen ++ " " ++
    showList (fun g => showName g.1 ++ ":" ++ toString g.2.acycle ++ ":" ++ toString g.2.anode ++ ":" ++ toString g.2.cycle ++ ":" ++ toString g.2.node ++ ":" ++ showObjs g.2.objs) (sortedGroups s)

def parsePairs? (s : String) : Option (List (Nat × Nat)) := do
  (← parseList? parseNatList? s).mapM (fun l => match l with | [a, b] => some (a, b) | _ => none)

def parseQuads? (s : String) : Option (List (Nat × Nat × Nat × Nat)) := do
  (← parseList? parseNatList? s).mapM
    (fun l => match l with | [a, b, c, d] => some (a, b, c, d) | _ => none)

def bit? : Nat → Option Bool
  | 0 => some false | 1 => some true | _ => none

def parseIface? (s : String) : Option Iface := do
  match ← parseNatList? s with
  | [n, en, bf, rev, cp] => some ⟨n, ← bit? en, ← bit? bf, ← bit? rev, ← bit? cp⟩
  | _ => none

def parseCfg? : List String → Option Config
  | [nC, bs, sc, sn, stack, dfr, dc, cp, mi, skip, db, halt, conv, bolset] => do
    let halt ← parsePairs? halt
    let conv ← parseQuads? conv
    let bolSet ← (if bolset = "_" then some none
      else (parseNatList? bolset).bind (fun l => match l with | [a, b, c] => some (some (a, b, c)) | _ => none))
    some { nCycles := ← parseNat? nC, burnSteps := ← parseNatList? bs, startCycle := ← parseNat? sc,
           startNode := ← parseNat? sn, stack := ← parseList? parseIface? stack,
           deferredNames := ← parseNatList? dfr, deferredCycle := ← parseNat? dc,
           couplingOn := ← parseBool? cp, maxIters := ← parseNat? mi, skipCycles := ← parseNatList? skip,
           dbName := ← parseNat? db,
           halt := fun i c => halt.contains (i, c), conv := fun i c n it => conv.contains (i, c, n, it), bolSet := bolSet }
  | _ => none

/-- the followed state: number of hook calls of interface `f` among calls 0..i -/
def faultState (cfg : Config) (f : Nat) (i : Nat) : Objs :=
  [(0, some (((run cfg).take (i + 1)).filter (fun e => e.iface == f)).length)]

/-- the followed state when a stamping interface sets it to `off + 100 * cycle + node` at every node -/
def stampState (cfg : Config) (off : Int) (i : Nat) : Objs :=
  match (run cfg)[i]? with
  | some e => [(0, some (off + 100 * (e.rc : Int) + (e.rn : Int)))]
  | none => []

def parseDflt? (s : String) : Option (List (Nat × Int)) := do
  (← parseList? parseIntList? s).mapM (fun l => match l with
    | [a, b] => if a < 0 then none else some (a.toNat, b)
    | _ => none)

/-- the histories of the requested parameters, in request order (a `dict`'s own order is not compared) -/
def showHist (params : List Nat) (h : Hist) : String :=
  ";".intercalate ((params.eraseDups.filterMap (fun p => (h.lookup p).map (fun d => (p, d)))).map (fun e =>
    toString e.1 ++ ":" ++ showList (fun x => showPairN x.1 ++ ":" ++ toString x.2) e.2))

def step (st : DS) : List String → DS × String
  | ["reset"] => ({}, "ok")
  | ["preset", dflt] => match parseDflt? dflt with
    | some d => ({ st with pst := { assigned := [], live := [], cycle := 0, node := 0 }, pgroups := [], pdflt := d }, "ok")
    | none => (st, "bad-op")
  | ["ptime", c, n] => match parseNat? c, parseNat? n with
    | some c, some n => ({ st with pst := { st.pst with cycle := c, node := n } }, "ok")
    | _, _ => (st, "bad-op")
  | ["passign", sn, p, v] => match parseNat? sn, parseNat? p, parseInt? v with
    | some sn, some p, some v => ({ st with pst := st.pst.assign sn p v }, "ok")
    | _, _, _ => (st, "bad-op")
  | ["pwrite", layout] => match parseNatList? layout with
    | some l =>
      if st.pgroups.any (fun g => (g.cycle, g.node) == (st.pst.cycle, st.pst.node)) then (st, "reject")
      else ({ st with pgroups := st.pgroups ++ [writeP st.pst (dfltOf st) l] }, "ok")
    | none => (st, "bad-op")
  | ["pwritel", layout, locs] => match parseNatList? layout, parseNatList? locs with
    | some l, some ls =>
      if st.pgroups.any (fun g => (g.cycle, g.node) == (st.pst.cycle, st.pst.node)) || l.length != ls.length then (st, "reject")
      else ({ st with pgroups := st.pgroups ++ [writePL st.pst (dfltOf st) l ls] }, "ok")
    | _, _ => (st, "bad-op")
  | ["ploc", loc, params, steps] => match parseNat? loc, parseNatList? params, (if steps = "_" then some (allSteps st.pgroups) else parsePairs? steps) with
    | some L, some ps, some steps =>
      (st, match dbHistoryByLoc st.pgroups (dfltOf st) L ps steps with | some h => showHist ps h | none => "reject")
    | _, _, _ => (st, "bad-op")
  | ["plocdbi", loc, sn, params, steps] =>
    match parseNat? loc, parseNat? sn, parseNatList? params,
      (if steps = "_" then some (allSteps st.pgroups ++ (if (allSteps st.pgroups).contains (st.pst.cycle, st.pst.node) then [] else [(st.pst.cycle, st.pst.node)]))
       else parsePairs? steps) with
    | some L, some sn, some ps, some steps =>
      (st, match dbiHistoryByLoc st.pgroups st.pst (dfltOf st) L sn ps steps with | some h => showHist ps h | none => "reject")
    | _, _, _, _ => (st, "bad-op")
  | ["plocs", req, params, steps] =>
    -- the batched call: answers one line part per requested location, in request order
    match parseNatList? req, parseNatList? params, (if steps = "_" then some (allSteps st.pgroups) else parsePairs? steps) with
    | some req, some ps, some steps =>
      (st, match locHistories st.pgroups req ps (dfltOf st) steps (req.map (fun L => (L, []))) with
        | some t => " | ".intercalate (req.map (fun L => toString L ++ "=" ++ showHist ps ((t.lookup L).getD [])))
        | none => "reject")
    | _, _, _ => (st, "bad-op")
  | ["pstored", c, n] => match parseNat? c, parseNat? n with
    | some c, some n => (st, match st.pgroups.find? (fun g => (g.cycle, g.node) == (c, n)) with
      | some g => showList toString ((g.data.map (·.1)).mergeSort) | none => "reject")
    | _, _ => (st, "bad-op")
  | ["pdb", sn, params, steps] => match parseNat? sn, parseNatList? params, parsePairs? steps with
    | some sn, some ps, some steps =>
      (st, match dbHistory st.pgroups st.pst (dfltOf st) sn ps steps with | some h => showHist ps h | none => "reject")
    | _, _, _ => (st, "bad-op")
  | ["pdbi", sn, params, steps] => match parseNat? sn, parseNatList? params, parsePairs? steps with
    | some sn, some ps, some steps =>
      (st, match dbiHistory st.pgroups st.pst (dfltOf st) sn ps steps with | some h => showHist ps h | none => "reject")
    | _, _, _ => (st, "bad-op")
  | ["pdball", sn, params] => match parseNat? sn, parseNatList? params with
    | some sn, some ps =>
      (st, match dbHistoryAll st.pgroups st.pst (dfltOf st) sn ps with | some h => showHist ps h | none => "reject")
    | _, _ => (st, "bad-op")
  | ["pdbiall", sn, params] => match parseNat? sn, parseNatList? params with
    | some sn, some ps =>
      (st, match dbiHistoryAll st.pgroups st.pst (dfltOf st) sn ps with | some h => showHist ps h | none => "reject")
    | _, _ => (st, "bad-op")
  | ["pblock", sn, p, c, n] => match parseNat? sn, parseNat? p, parseNat? c, parseNat? n with
    | some sn, some p, some c, some n =>
      (st, match blockHistoryVal st.pgroups st.pst (dfltOf st) sn p (c, n) with | some v => toString v | none => "reject")
    | _, _, _, _ => (st, "bad-op")
  | ["open"] => ({ st with db := some openW }, "ok")
  | ["set", c, n, objs] => match parseNat? c, parseNat? n, parseObjs? objs with
    | some c, some n, some o => ({ st with cur := { cycle := c, node := n, objs := o } }, "ok")
    | _, _, _ => (st, "bad-op")
  | ["write", l] => match st.db with
    | none => (st, "reject")
    | some db => match write db st.cur (lab l) with
      | none => (st, "reject")
      | some db' => ({ st with db := some db' }, "ok")
  | ["load", c, n, l] => match st.db, parseNat? c, parseNat? n with
    | some db, some c, some n => (st, showOpt showSnap (load db ⟨c, n, lab l⟩))
    | none, some _, some _ => (st, "reject")
    | _, _, _ => (st, "bad-op")
  | ["delete", c, n, l] => match st.db, parseNat? c, parseNat? n with
    | some db, some c, some n => (match delete db ⟨c, n, lab l⟩ with
      | some db' => ({ st with db := some db' }, "ok")
      | none => (st, "reject"))
    | none, some _, some _ => (st, "reject")
    | _, _, _ => (st, "bad-op")
  | ["has", c, n, l] => match st.db, parseNat? c, parseNat? n with
    | some db, some c, some n => (st, showBool (hasKey db ⟨c, n, lab l⟩))
    | none, some _, some _ => (st, "reject")
    | _, _, _ => (st, "bad-op")
  | ["histlabel", serial, c, n, l] => match st.db, parseNat? serial, parseNat? c, parseNat? n with
    | some db, some sn, some c, some n =>
      -- `getHistory(obj, [param], [(c, n, label)])`: the group named by the step (KeyError if absent), keyed by its attributes,
      -- then the live step if missing; the answer is the entry of (c, n)
      (st, match load db ⟨c, n, lab l⟩ with
        | none => "reject"
        | some snap =>
          let fromDb : List ((Nat × Nat) × Int) :=
            match snap.objs.find? (fun o => o.1 == sn) with
            | some o => [((snap.acycle, snap.anode), o.2.getD 0)]
            | none => []
          let h := if fromDb.isEmpty || fromDb.any (fun e => e.1 == (st.cur.cycle, st.cur.node)) then fromDb
            else match st.cur.objs.find? (fun o => o.1 == sn) with
              | some o => fromDb ++ [((st.cur.cycle, st.cur.node), o.2.getD 0)]
              | none => fromDb
          match h.lookup (c, n) with | some v => toString v | none => "_")
    | none, some _, some _, some _ => (st, "reject")
    | _, _, _, _ => (st, "bad-op")
  | ["steps"] => match st.db with
    | some db => (st, showList showPairN (steps db)) | none => (st, "reject")
  | ["history", serial, dflt] => match st.db, parseNat? serial, parseInt? dflt with
    | some db, some sn, some d =>
      (st, showList (fun e => showPairN e.1 ++ ":" ++ toString e.2) (history db sn d st.cur))
    | none, some _, some _ => (st, "reject")
    | _, _, _ => (st, "bad-op")
  | ["merge", sc, sn] => match st.db, parseNat? sc, parseNat? sn with
    | some db, some sc, some sn => (st, showOpt showStore (mergeHistory openW db sc sn))
    | none, some _, some _ => (st, "reject")
    | _, _, _ => (st, "bad-op")
  | ["split", keep] => match st.db, parsePairs? keep with
    | some db, some keep =>
      let r := splitOp db keep
      ({ st with db := some r.1 }, if r.2 then "ok" else "reject")
    | none, some _ => (st, "reject")
    | _, _ => (st, "bad-op")
  | ["close", ok] => match st.db, parseBool? ok with
    | some db, some ok => ({ st with db := some (close db ok) }, "ok")
    | none, some _ => (st, "reject")
    | _, _ => (st, "bad-op")
  | ["file"] => match st.db with
    | some db => (st, showStore db) | none => (st, "none")
  | "crash" :: opener :: f :: n :: cfgArgs => match parseNat? opener, parseNat? f, parseNat? n, parseCfg? cfgArgs with
    | some op, some f, some n, some cfg =>
      let d : DbCfg := { cfg := cfg, opener := op, stateAt := faultState cfg f }
      (st, match fileAfterCrash d n with | none => "none" | some s => showStore s)
    | _, _, _, _ => (st, "bad-op")
  | "complete" :: opener :: f :: cfgArgs => match parseNat? opener, parseNat? f, parseCfg? cfgArgs with
    | some op, some f, some cfg =>
      let d : DbCfg := { cfg := cfg, opener := op, stateAt := faultState cfg f }
      (st, match fileAfterRun d with | none => "none" | some s => showStore s)
    | _, _, _ => (st, "bad-op")
  | "restart" :: off1 :: off2 :: sc :: sn :: opener :: rest =>
    -- a completed first run (stamp offset off1), then the same case restarted from its file at (sc, sn) (offset off2)
    match parseInt? off1, parseInt? off2, parseNat? sc, parseNat? sn, parseNat? opener,
      parseCfg? (rest.take 14), parseCfg? (rest.drop 14) with
    | some off1, some off2, some sc, some sn, some op, some cfg1, some cfg2 =>
      let d1 : DbCfg := { cfg := cfg1, opener := op, stateAt := stampState cfg1 off1 }
      match fileAfterRun d1 with
      | none => (st, "none")
      | some src =>
        let d2 : DbCfg := { cfg := cfg2, opener := op, stateAt := stampState cfg2 off2, opened := restartStore src sc sn }
        (st, match fileAfterRun d2 with | none => "none" | some s => showStore s)
    | _, _, _, _, _, _, _ => (st, "bad-op")
  | "restartc" :: idx :: off1 :: off2 :: sc :: sn :: opener :: rest =>
    -- as `restart`, but the restarted run aborts inside hook call number idx
    match parseNat? idx, parseInt? off1, parseInt? off2, parseNat? sc, parseNat? sn, parseNat? opener,
      parseCfg? (rest.take 14), parseCfg? (rest.drop 14) with
    | some idx, some off1, some off2, some sc, some sn, some op, some cfg1, some cfg2 =>
      let d1 : DbCfg := { cfg := cfg1, opener := op, stateAt := stampState cfg1 off1 }
      match fileAfterRun d1 with
      | none => (st, "none")
      | some src =>
        let d2 : DbCfg := { cfg := cfg2, opener := op, stateAt := stampState cfg2 off2, opened := restartStore src sc sn }
        (st, match fileAfterCrash d2 idx with | none => "none" | some s => showStore s)
    | _, _, _, _, _, _, _, _ => (st, "bad-op")
  | ["name", c, n, l] => match parseNat? c, parseNat? n with
    | some c, some n => (st, showName ⟨c, n, lab l⟩) | _, _ => (st, "bad-op")
  | _ => (st, "bad-op")

def main : IO Unit := loopState ({} : DS) step
