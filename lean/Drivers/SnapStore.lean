import ArmiVerif.Model.Proto
import ArmiVerif.Model.SnapStore
open ArmiVerif ArmiVerif.Proto ArmiVerif.Schedule ArmiVerif.SnapStore

structure DS where
  db : Option Store := none
  cur : Snap := { cycle := 0, node := 0, objs := [] }

def parseOptInt? (s : String) : Option (Option Int) :=
  if s = "_" then some none else (parseInt? s).map some

def parseObjs? (s : String) : Option Objs := do
  (← parseList? (parseList? some) s).mapM (fun l => match l with
    | [a, b] => do some (← parseNat? a, ← parseOptInt? b)
    | _ => none)

def showObjs (o : Objs) : String :=
  showList (fun p => "[" ++ toString p.1 ++ "," ++ (match p.2 with | none => "_" | some v => toString v) ++ "]") o

def lab (s : String) : List Nat := if s = "-" then [] else s.toList.map Char.toNat
def showName (k : Key) : String := String.ofList ((name k).map Char.ofNat)

def showSnap (s : Snap) : String := toString s.cycle ++ " " ++ toString s.node ++ " " ++ showObjs s.objs

def showPairN (p : Nat × Nat) : String := "(" ++ toString p.1 ++ "," ++ toString p.2 ++ ")"

def showStore (s : Store) : String :=
  "work=" ++ showBool s.inWork ++ " success=" ++ showBool s.success ++ " open=" ++ showBool s.isOpen ++ " " ++
    showList (fun g => showName g.1 ++ ":" ++ toString g.2.acycle ++ ":" ++ toString g.2.anode ++ ":" ++ toString g.2.cycle ++ ":" ++ toString g.2.node ++ ":" ++ showObjs g.2.objs) (sortedGroups s)

def parsePairs? (s : String) : Option (List (Nat × Nat)) := do
  (← parseList? parseNatList? s).mapM (fun l => match l with | [a, b] => some (a, b) | _ => none)

def parseQuads? (s : String) : Option (List (Nat × Nat × Nat × Nat)) := do
  (← parseList? parseNatList? s).mapM
    (fun l => match l with | [a, b, c, d] => some (a, b, c, d) | _ => none)

def bit? : Nat → Option Bool
  | 0 => some false | 1 => some true | _ => none

def parseIface? (s : String) : Option Iface := do
  match ← parseNatList? s with
  | [n, en, bf, rev, cp] => some ⟨n, ← bit? en, ← bit? bf, ← bit? rev, ← bit? cp⟩
  | _ => none

def parseCfg? : List String → Option Config
  | [nC, bs, sc, sn, stack, dfr, dc, cp, mi, skip, db, halt, conv, _bolset] => do
    let halt ← parsePairs? halt
    let conv ← parseQuads? conv
    some { nCycles := ← parseNat? nC, burnSteps := ← parseNatList? bs, startCycle := ← parseNat? sc,
           startNode := ← parseNat? sn, stack := ← parseList? parseIface? stack,
           deferredNames := ← parseNatList? dfr, deferredCycle := ← parseNat? dc,
           couplingOn := ← parseBool? cp, maxIters := ← parseNat? mi, skipCycles := ← parseNatList? skip,
           dbName := ← parseNat? db,
           halt := fun i c => halt.contains (i, c), conv := fun i c n it => conv.contains (i, c, n, it) }
  | _ => none

/-- the followed state: number of hook calls of interface `f` among calls 0..i -/
def faultState (cfg : Config) (f : Nat) (i : Nat) : Objs :=
  [(0, some (((run cfg).take (i + 1)).filter (fun e => e.iface == f)).length)]

def step (st : DS) : List String → DS × String
  | ["reset"] => ({}, "ok")
  | ["open"] => ({ st with db := some openW }, "ok")
  | ["set", c, n, objs] => match parseNat? c, parseNat? n, parseObjs? objs with
    | some c, some n, some o => ({ st with cur := { cycle := c, node := n, objs := o } }, "ok")
    | _, _, _ => (st, "bad-op")
  | ["write", l] => match st.db with
    | none => (st, "reject")
    | some db => match write db st.cur (lab l) with
      | none => (st, "reject")
      | some db' => ({ st with db := some db' }, "ok")
  | ["load", c, n, l] => match st.db, parseNat? c, parseNat? n with
    | some db, some c, some n => (st, showOpt showSnap (load db ⟨c, n, lab l⟩))
    | none, some _, some _ => (st, "reject")
    | _, _, _ => (st, "bad-op")
  | ["steps"] => match st.db with
    | some db => (st, showList showPairN (steps db)) | none => (st, "reject")
  | ["history", serial, dflt] => match st.db, parseNat? serial, parseInt? dflt with
    | some db, some sn, some d =>
      (st, showList (fun e => showPairN e.1 ++ ":" ++ toString e.2) (history db sn d st.cur))
    | none, some _, some _ => (st, "reject")
    | _, _, _ => (st, "bad-op")
  | ["merge", sc, sn] => match st.db, parseNat? sc, parseNat? sn with
    | some db, some sc, some sn => (st, showOpt showStore (mergeHistory openW db sc sn))
    | none, some _, some _ => (st, "reject")
    | _, _, _ => (st, "bad-op")
  | ["split", keep] => match st.db, parsePairs? keep with
    | some db, some keep =>
      let r := splitOp db keep
      ({ st with db := some r.1 }, if r.2 then "ok" else "reject")
    | none, some _ => (st, "reject")
    | _, _ => (st, "bad-op")
  | ["close", ok] => match st.db, parseBool? ok with
    | some db, some ok => ({ st with db := some (close db ok) }, "ok")
    | none, some _ => (st, "reject")
    | _, _ => (st, "bad-op")
  | ["file"] => match st.db with
    | some db => (st, showStore db) | none => (st, "none")
  | "crash" :: opener :: f :: n :: cfgArgs => match parseNat? opener, parseNat? f, parseNat? n, parseCfg? cfgArgs with
    | some op, some f, some n, some cfg =>
      let d : DbCfg := ⟨cfg, op, faultState cfg f⟩
      (st, match fileAfterCrash d n with | none => "none" | some s => showStore s)
    | _, _, _, _ => (st, "bad-op")
  | "complete" :: opener :: f :: cfgArgs => match parseNat? opener, parseNat? f, parseCfg? cfgArgs with
    | some op, some f, some cfg =>
      let d : DbCfg := ⟨cfg, op, faultState cfg f⟩
      (st, match fileAfterRun d with | none => "none" | some s => showStore s)
    | _, _, _ => (st, "bad-op")
  | ["name", c, n, l] => match parseNat? c, parseNat? n with
    | some c, some n => (st, showName ⟨c, n, lab l⟩) | _, _ => (st, "bad-op")
  | _ => (st, "bad-op")

def main : IO Unit := loopState ({} : DS) step
