import ArmiVerif.Model.Proto
import ArmiVerif.Gen.Src
open ArmiVerif ArmiVerif.Proto

/-
Driver of the GENERATED definitions (Gen/Src.lean, written by tools/py2lean.py).
request : <Namespace.function> <arg> <arg> ...   arg = int (bools as 0/1, tuple parameters flattened) | [int,int,...] (a list parameter)
answer  : canonical result (ints, T/F, right-nested tuples, lists, None; `reject` = the Python raises);
          `bad-op` for an unknown function / wrong number of arguments.
-/
def answer : List String → String
  | name :: args =>
    match args.mapM (fun (s : String) => if s.startsWith "[" then parseIntList? s else (parseInt? s).map (fun i => [i])) with
    | some xs => (ArmiVerif.Gen.Src.dispatch name xs).getD "bad-op"
    | none => "bad-op"
  | [] => "bad-op"

def main : IO Unit := loop answer
