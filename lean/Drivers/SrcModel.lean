import ArmiVerif.Model.Proto
import ArmiVerif.Model.PyInt
import ArmiVerif.Model.Hex
import ArmiVerif.Model.Grid
import ArmiVerif.Model.Schedule
import ArmiVerif.Model.Nuclide
import ArmiVerif.Model.XsGroup
import ArmiVerif.Model.Cccc
import ArmiVerif.Model.SnapStore
open ArmiVerif ArmiVerif.Proto ArmiVerif.PyInt

/-
Hand-model side of the source tie (static; does NOT depend on Gen/Src.lean): the model definition that
each translated function is proved equal to, evaluated on the same flat integer arguments and printed
in the same canonical form as Drivers/Src.lean (through the "view" the equivalence theorem states:
e.g. the (i, j) part of `_indicesAndEdgeFromRingAndPos`).  Used by the extended failing-input search
of harness/srctie.py when an equivalence theorem no longer checks.
-/
def natList? (l : List Int) : Option (List Nat) := l.mapM (fun i => if 0 ≤ i then some i.toNat else none)
def showNatPair (p : Nat × Nat) : String := PyShow.sh (((p.1 : Nat) : Int), ((p.2 : Nat) : Int))

/-- functions with a list argument (C15 node arithmetic; the models are over `Nat`) -/
def modelL (name : String) (a : List (List Int)) : Option String :=
  match name, a with
  | "Utils.getCumulativeNodeNum", [[c], [n], bs] =>
      match natList? bs with
      | some l => if 0 ≤ c ∧ 0 ≤ n then some (PyShow.sh ((Schedule.cumNode l c.toNat n.toNat : Nat) : Int)) else some "out-of-domain"
      | none => some "out-of-domain"
  | "Utils.getPreviousTimeNode", [[c], [n], bs] =>
      match natList? bs with
      | some l => if 0 ≤ c ∧ 0 ≤ n then
          some (match Schedule.prevNode l c.toNat n.toNat with | none => "reject" | some p => showNatPair p)
        else some "out-of-domain"
      | none => some "out-of-domain"
  | "Utils.getCycleNodeFromCumulativeNode", [[k], bs] =>
      match natList? bs with
      | some l => if 0 ≤ k then
          some (match Schedule.nodeOfCum l k.toNat with | none => "reject" | some p => showNatPair p)
        else some "out-of-domain"
      | none => some "out-of-domain"
  | "Utils.getCycleNodeFromCumulativeStep", [[t], bs] =>
      match natList? bs with
      | some l => if 0 ≤ t then
          some (match Schedule.stepOfCum l t.toNat with | none => "reject" | some p => showNatPair p)
        else some "out-of-domain"
      | none => some "out-of-domain"
  | "CrossSectionGroupManager.getXSTypeNumberFromLabel", [l] =>
      match natList? l with
      | some cs => some (match XsGroup.labelToNumber cs with | none => "reject" | some n => PyShow.sh ((n : Nat) : Int))
      | none => some "out-of-domain"
  | "CrossSectionGroupManager.getXSTypeLabelFromNumber", [[n]] =>
      if 0 ≤ n then
        some (match XsGroup.numberToLabel n.toNat with
              | none => "reject" | some cs => PyShow.sh (cs.map (fun (c : Nat) => (c : Int))))
      else some "out-of-domain"
  | "Cccc.getBlockBandwidth", [[m], [nintj], [nblok]] => some (showRaise (ArmiVerif.Cccc.getBlockBandwidth m nintj nblok))
  | "Database.getH5GroupName", [[c], [n], l] =>
      match natList? l with
      | some cs => if 0 ≤ c ∧ c < 100 ∧ 0 ≤ n ∧ n < 100 then
          some (PyShow.sh ((ArmiVerif.SnapStore.name ⟨c.toNat, n.toNat, cs⟩).map (fun (x : Nat) => (x : Int))))
        else some "out-of-domain"
      | none => some "out-of-domain"
  | "Utils.getNodesPerCycle", [bs] =>
      match natList? bs with
      | some l => some (PyShow.sh ((Schedule.nodesPerCycle l).map (fun (x : Nat) => (x : Int))))
      | none => some "out-of-domain"
  | _, _ => none

def model (name : String) (a : List Int) : Option String :=
  match name, a with
  | "Hexagon.numPositionsInRing", [r] => some (PyShow.sh (Hex.positionsInRing r))
  | "Hexagonal.HexGrid.getPositionsInRing", [r] => some (PyShow.sh (Hex.positionsInRing r))
  | "Hexagon.totalPositionsUpToRing", [r] =>
      if r < 0 then some "out-of-domain" else some (PyShow.sh ((Hex.totalUpTo r.toNat : Nat) : Int))
  | "Hexagonal.HexGrid.indicesToRingPos", [i, j] => some (PyShow.sh (Hex.toRingPos i j))
  | "Hexagonal.HexGrid.getRingPos", [i, j, _] => some (PyShow.sh (Hex.toRingPos i j))
  | "Hexagonal.HexGrid._indicesAndEdgeFromRingAndPos", [r, p] => some (showRaise (Hex.fromRingPos r p))
  | "Hexagonal.HexGrid.getIndicesFromRingAndPos", [r, p] => some (showRaise (Hex.fromRingPos r p))
  | "Hexagonal.HexGrid.getNeighboringCellIndices", [i, j, _] => some (PyShow.sh (Hex.neighbours i j))
  | "Hexagonal.HexGrid.overlapsWhichSymmetryLine", [i, j] =>
      let l := Hex.lineOf (i, j)
      some (if l = 0 then "None" else PyShow.sh (l : Int))
  | "Hexagonal.HexGrid._getSymmetricIdenticalsThird", [i, j, _] => some (PyShow.sh (Hex.sym3 (i, j)))
  | "Hexagonal.HexGrid.isInFirstThird", [top, i, j, _] => some (PyShow.sh (Hex.inFirstThird (top != 0) (i, j)))
  | "Hexagonal.HexGrid.rotateIndex", [rot, cons, i, j, k] =>
      if cons != 0 then
        let r := Hex.rotateIndex rot (i, j)
        some (PyShow.sh (r.1, r.2, k))
      else some "reject"
  | "Thetarz.ThetaRZGrid.getRingPos", [i, j, _] => some (PyShow.sh (Grid.trzRingPos i j))
  | "Thetarz.ThetaRZGrid.getIndicesFromRingAndPos", [r, p] => some (PyShow.sh (Grid.trzFromRingPos r p))
  | "NuclideBases.NuclideBase.getMcnpId", [z, a, s] =>
      if 0 ≤ z ∧ 0 ≤ a ∧ 0 ≤ s then
        some (PyShow.sh (z, ((Nuclide.mcnpA z.toNat a.toNat s.toNat : Nat) : Int)))
      else some "out-of-domain"
  | "NuclideBases.NuclideBase.getAAAZZZSId", [z, a, s] => some (PyShow.sh (a, z, s))
  | "Cartesian.CartesianGrid.getRingPos", [i, j, t] => some (PyShow.sh (Grid.cartRingPos (t != 0) i j))
  | "Cartesian.CartesianGrid.getPositionsInRing", [r, t] => some (PyShow.sh (Grid.cartPositionsInRing (t != 0) r))
  | _, _ => none

def answer : List String → String
  | name :: args =>
    match args.mapM (fun (s : String) => if s.startsWith "[" then parseIntList? s else (parseInt? s).map (fun i => [i])) with
    | some xs =>
      match modelL name xs with
      | some r => r
      | none => if xs.all (fun l => l.length = 1) then (model name (xs.map (fun l => l.headD 0))).getD "bad-op" else "bad-op"
    | none => "bad-op"
  | [] => "bad-op"

def main : IO Unit := loop answer
