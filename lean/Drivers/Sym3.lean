import ArmiVerif.Model.Proto
import ArmiVerif.Model.Sym3
open ArmiVerif ArmiVerif.Proto ArmiVerif.Sym3

/-
Stateful line protocol for Model/Sym3.lean.
  init FULL NEXT FLAG [[id,i,j,src,orient,[geo..],[par..]],...]   -> canonical state
  convert | restore | addEdge | removeEdge                        -> canonical state (
                                                                     convert: `reject` when a Core.add would find its cell occupied)
  geo K        -> [geoTotal 0, ..., geoTotal (K-1)]
  par K        -> [parTotal 0, ..., parTotal (K-1)]
  domain i j   -> T/F (inDomain) ; sector i j -> T/F ; sym i j -> 0/120 line flags
-/

def parseAssem? (s : String) : Option Assem := do
  let parts ← splitTop s
  match parts with
  | [id, i, j, src, o, g, p] =>
    let id ← parseInt? id; let i ← parseInt? i; let j ← parseInt? j
    let src ← parseInt? src; let o ← parseInt? o
    let g ← parseRatList? g; let p ← parseRatList? p
    some { id := id, cell := (i, j), src := src, orient := o, geo := g, par := p }
  | _ => none

def showInts (l : List Int) : String := showList toString l

def showAssem (a : Assem) : String :=
  "[" ++ toString a.id ++ "," ++ toString a.cell.1 ++ "," ++ toString a.cell.2 ++ "," ++ toString a.src ++ ","
    ++ toString a.orient ++ "," ++ showList showRat a.par ++ "]"

def showState (s : State) : String :=
  "full=" ++ showBool s.full ++ " next=" ++ toString s.next ++ " convAdded=" ++ showInts s.convAdded
    ++ " edgeAdded=" ++ showInts s.edgeAdded ++ " kids=" ++ showList showAssem s.kids
    ++ " names=" ++ showInts ((s.kids.map (·.id)).mergeSort (fun a b => decide (a ≤ b)))

def empty : State := ⟨[], false, 0, true, [], false, []⟩

def stepLine (s : State) : List String → State × String
  | ["init", full, next, flag, kids] =>
    match parseBool? full, parseInt? next, parseBool? flag, parseList? parseAssem? kids with
    | some f, some n, some fl, some ks =>
      let s' : State := ⟨ks, f, n, fl, [], false, []⟩
      (s', showState s')
    | _, _, _, _ => (s, "bad-op")
  | ["convert"] =>
    if convertCollides s then (s, "reject") else let s' := convert s; (s', showState s')
  | ["restore"] => let s' := restore s; (s', showState s')
  | ["addEdge"] => let s' := addEdge s; (s', showState s')
  | ["removeEdge"] => let s' := removeEdge s; (s', showState s')
  -- a second changer on a core the first one expanded: its convert returns at once (already full), its restore has
  -- nothing to undo (`_newAssembliesAdded` empty): both leave the state as it is
  | ["convert2"] => if s.full then (s, showState s) else (s, "bad-op")
  | ["restore2"] => if s.full then (s, showState s) else (s, "bad-op")
  | ["solveScale"] =>
    if s.full then (s, "bad-op") else let s' := scaleSym (solveHalves s); (s', showState s')
  | ["geo", k] => match parseNat? k with
    | some k => (s, showList showRat ((List.range k).map (geoTotal s)))
    | none => (s, "bad-op")
  | ["par", k] => match parseNat? k with
    | some k => (s, showList showRat ((List.range k).map (parTotal s.kids)))
    | none => (s, "bad-op")
  | ["domain", i, j] => match parseInt? i, parseInt? j with
    | some i, some j => (s, showBool (inDomain (i, j)))
    | _, _ => (s, "bad-op")
  | ["sector", i, j] => match parseInt? i, parseInt? j with
    | some i, some j => (s, showBool (sector (i, j)))
    | _, _ => (s, "bad-op")
  | ["lines", i, j] => match parseInt? i, parseInt? j with
    | some i, some j => (s, showBool (on0 (i, j)) ++ showBool (on120 (i, j)))
    | _, _ => (s, "bad-op")
  | _ => (s, "bad-op")

def main : IO Unit := loopState empty stepLine
