import ArmiVerif.Model.Proto
import ArmiVerif.Model.Sym3
open ArmiVerif ArmiVerif.Proto ArmiVerif.Sym3

/-
Stateful line protocol for Model/Sym3.lean.
  init FULL NEXT FLAG [[id,i,j,src,orient,[geo..],[par..]],...]   -> canonical state
  convert | restore | addEdge | removeEdge                        -> canonical state (
                                                                     convert: `reject` when a Core.add would find its cell occupied)
  geo K        -> [geoTotal 0, ..., geoTotal (K-1)]
  par K        -> [parTotal 0, ..., parTotal (K-1)]
  domain i j   -> T/F (inDomain) ; sector i j -> T/F ; sym i j -> 0/120 line flags
  pinit [[assemNum,[[selfN,selfK,gridN,gridK,ownerN,ownerK,onOwn,[[i,j],...],orient,[[q,..],..]],...]],...]
               -> ok      the table below block level (gridN / ownerN = -1: none); the four operations update it
  sub          -> per child in order [assemNum,[block,...]] in the same format
  scalevals up|down [v,...]   with v = N | L[q,..] | S[q] | A[q,..]   -> the scaled values, same format
-/

def parseAssem? (s : String) : Option Assem := do
  let parts ← splitTop s
  match parts with
  | [id, i, j, src, o, g, p] =>
    let id ← parseInt? id; let i ← parseInt? i; let j ← parseInt? j
    let src ← parseInt? src; let o ← parseInt? o
    let g ← parseRatList? g; let p ← parseRatList? p
    some { id := id, cell := (i, j), src := src, orient := o, geo := g, par := p }
  | _ => none

def showInts (l : List Int) : String := showList toString l

def showAssem (a : Assem) : String :=
  "[" ++ toString a.id ++ "," ++ toString a.cell.1 ++ "," ++ toString a.cell.2 ++ "," ++ toString a.src ++ ","
    ++ toString a.orient ++ "," ++ showList showRat a.par ++ "]"

def showState (s : State) : String :=
  "full=" ++ showBool s.full ++ " next=" ++ toString s.next ++ " convAdded=" ++ showInts s.convAdded
    ++ " edgeAdded=" ++ showInts s.edgeAdded ++ " convList=" ++ showBool s.convList ++ " kids=" ++ showList showAssem s.kids
    ++ " names=" ++ showInts ((s.kids.map (·.id)).mergeSort (fun a b => decide (a ≤ b)))

def empty : State × Sub := (⟨[], false, 0, true, [], false, []⟩, [])

def parsePair? (s : String) : Option (Int × Int) := do
  match (← splitTop s) with
  | [i, j] => some ((← parseInt? i), (← parseInt? j))
  | _ => none

def mkObj? (n k : Int) : Option Obj := if n = -1 then none else some (n, k.toNat)

def parsePBlock? (s : String) : Option PBlock := do
  match (← splitTop s) with
  | [sn, sk, gn, gk, on, ok, oo, pins, orient, bnd] =>
    let sn ← parseInt? sn; let sk ← parseInt? sk; let gn ← parseInt? gn; let gk ← parseInt? gk
    let on ← parseInt? on; let ok ← parseInt? ok; let oo ← parseInt? oo
    let pins ← parseList? parsePair? pins
    let orient ← parseInt? orient
    let bnd ← parseList? parseRatList? bnd
    some { self := (sn, sk.toNat), grid := mkObj? gn gk, owner := mkObj? on ok, onOwn := oo != 0, pins := pins,
           orient := orient, bnd := bnd }
  | _ => none

def parseEntry? (s : String) : Option (Int × List PBlock) := do
  match (← splitTop s) with
  | [n, bs] => some ((← parseInt? n), (← parseList? parsePBlock? bs))
  | _ => none

def parsePVal? (s : String) : Option PVal :=
  if s == "N" then some .none
  else match s.front with
    | 'L' => (parseRatList? (String.ofList (s.toList.drop 1))).map .list
    | 'A' => (parseRatList? (String.ofList (s.toList.drop 1))).map .array
    | 'S' => match parseRatList? (String.ofList (s.toList.drop 1)) with
      | some [q] => some (.scalar q)
      | _ => none
    | _ => none

def showPVal : PVal → String
  | .none => "N"
  | .list l => "L" ++ showList showRat l
  | .array l => "A" ++ showList showRat l
  | .scalar q => "S" ++ showList showRat [q]

def showObj : Option Obj → String
  | some o => toString o.1 ++ "," ++ toString o.2
  | none => "-1,0"

def showPBlock (b : PBlock) : String :=
  "[" ++ showObj (some b.self) ++ "," ++ showObj b.grid ++ "," ++ showObj b.owner ++ "," ++ (if b.onOwn then "1" else "0")
    ++ "," ++ showList (fun p => "[" ++ toString p.1 ++ "," ++ toString p.2 ++ "]") b.pins
    ++ "," ++ toString b.orient ++ "," ++ showList (showList showRat) b.bnd ++ "]"

def showSub (s : State) (sub : Sub) : String :=
  showList (fun a => "[" ++ toString a.id ++ "," ++ showList showPBlock (subOf sub a.id) ++ "]") s.kids

def stepLine (p : State × Sub) : List String → (State × Sub) × String :=
  let s := p.1
  let sub := p.2
  fun
  | ["init", full, next, flag, kids] =>
    match parseBool? full, parseInt? next, parseBool? flag, parseList? parseAssem? kids with
    | some f, some n, some fl, some ks =>
      let s' : State := ⟨ks, f, n, fl, [], false, []⟩
      ((s', []), showState s')
    | _, _, _, _ => (p, "bad-op")
  | ["pinit", tab] =>
    match parseList? parseEntry? tab with
    | some t => ((s, t), "ok")
    | none => (p, "bad-op")
  | ["sub"] => (p, showSub s sub)
  | ["scalevals", dir, vals] =>
    match parseList? parsePVal? vals with
    | some vs =>
      if dir == "up" then (p, showList showPVal (scaleBlockVals true vs))
      else if dir == "down" then (p, showList showPVal (scaleBlockVals false vs))
      else (p, "bad-op")
    | none => (p, "bad-op")
  | ["convert"] =>
    if convertCollides s then (p, "reject") else let p' := pstep p .convert; (p', showState p'.1)
  | ["restore"] => let p' := pstep p .restore; (p', showState p'.1)
  | ["addEdge"] => let p' := pstep p .addEdge; (p', showState p'.1)
  | ["removeEdge"] => let p' := pstep p .removeEdge; (p', showState p'.1)
  -- a second changer on a core the first one expanded: its convert returns at once (already full), its restore has
  -- nothing to undo (`_newAssembliesAdded` empty): both leave the state as it is
  | ["convert2"] => if s.full then (p, showState s) else (p, "bad-op")
  | ["restore2"] => if s.full then (p, showState s) else (p, "bad-op")
  | ["solveScale"] =>
    if s.full then (p, "bad-op") else let s' := scaleSym (solveHalves s); ((s', sub), showState s')
  | ["geo", k] => match parseNat? k with
    | some k => (p, showList showRat ((List.range k).map (geoTotal s)))
    | none => (p, "bad-op")
  | ["par", k] => match parseNat? k with
    | some k => (p, showList showRat ((List.range k).map (parTotal s.kids)))
    | none => (p, "bad-op")
  | ["domain", i, j] => match parseInt? i, parseInt? j with
    | some i, some j => (p, showBool (inDomain (i, j)))
    | _, _ => (p, "bad-op")
  | ["sector", i, j] => match parseInt? i, parseInt? j with
    | some i, some j => (p, showBool (sector (i, j)))
    | _, _ => (p, "bad-op")
  | ["lines", i, j] => match parseInt? i, parseInt? j with
    | some i, some j => (p, showBool (on0 (i, j)) ++ showBool (on120 (i, j)))
    | _, _ => (p, "bad-op")
  | _ => (p, "bad-op")

def main : IO Unit := loopState empty stepLine
