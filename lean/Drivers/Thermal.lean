import ArmiVerif.Model.Proto
import ArmiVerif.Model.Thermal
open ArmiVerif ArmiVerif.Proto ArmiVerif.Thermal

/-
requests (one per line):
  area <Shape> <pi> <sqrt3> [d1,..]          dims in `Shape.dims` order          -> area
  unshaped <factor> <coldArea>                                                    -> area
  factor <S|F> <pctTc> <pctT0> <same T|F>                                         -> factor | reject
  path [pct0,pct1,..,pctn] [nd..]      solid; pct at the start and at every visited temperature -> [nd..]
  fluidpath [rho0,..,rhon] [nd..]                                                 -> [nd..]
  getdim <sys> <i> <key> <cold T|F>                                               -> value | reject
  setdim <sys> <i> <key> <v> <cold T|F> <readCold T|F>                            -> value read back | reject
  setdimat <sys> <i> <key> <v> <cold> <retainLink> <qi> <qkey> <readCold>   set in a block, then read (qi,qkey)
  derivedarea <maxArea> [sibAreas]                                                -> area
  getdimtc <sys> [factorAtTc|_ per component] <i> <key>     getDimension(key, Tc=T)   -> value | reject
  <sys> := comp('|'comp)*   comp := <S|F>;<factor|_>;[expdim,..];name=val,name=@j.key,...
  hist <Shape|U> <name=val,..> <height|_> <sym> <tin> <t0> [nd..] [w..] [mat,..] [op,..]
       the component state machine with caches (Model/Thermal.lean `run`); mat := <S|L|C>;t~pct~rho;t~pct~rho;..
       (S solid, L Fluid, C Custom; the table must hold every temperature of the request);
       op := T~t | M~matIndex | H~key~v (hot set) | K~key~v (cold set) | N~[nd..] | qF | qD~key | qDc~key | qDT~key~Tc
             | qA | qAc | qAT~Tc | qV | qM | qN            -> [out,..]  out := [rat,..] | reject
  bhist <transitive T|F>[<linkClears T|F>] <height> <maxArea> [mat,..] <comp('|'comp)*> [bop,..]
       a block of linked components with caches (Model/Thermal.lean `brun`); the derived shape is implicit;
       comp := <Shape|U>;matIndex;tin;t0;[nd..];[w..];name=val,name=@j.key,..
       bop := T~i~t | M~i~matIndex | H~i~key~v | K~i~key~v | HR~i~key~v | KR~i~key~v (retainLink=True) | L~i~key~j~key2 (setLink) | qD~i~key | qDc~i~key | qA~i | qV~i | qM~i | qDA | qDV
-/

def parseKind? (s : String) : Option Kind :=
  if s = "S" then some .solid else if s = "F" then some .fluid else none

def parseDim? (s : String) : Option (String × Dim) :=
  match s.splitOn "=" with
  | [k, v] =>
    if v.startsWith "@" then
      match ((v.drop 1).toString).splitOn "." with
      | [j, key] => (j.toNat?).map (fun j => (k, Dim.link j key))
      | _ => none
    else (parseRat? v).map (fun q => (k, Dim.val q))
  | _ => none

def parseComp? (s : String) : Option Comp :=
  match s.splitOn ";" with
  | [k, f, e, ds] => do
    let kind ← parseKind? k
    let factor ← if f = "_" then some none else (parseRat? f).map some
    let exp ← splitTop e
    let dims ← (ds.splitOn ",").mapM parseDim?
    some { kind := kind, factor := factor, expDims := exp, dims := dims }
  | _ => none

def parseSys? (s : String) : Option (List Comp) := (s.splitOn "|").mapM parseComp?

def pctOf (l : List Rat) : Nat → Rat := fun i => l.getD i 0

/-- exact values of Python's `math.pi`, `math.sqrt(3.0)` -/
def pyPi : Rat := mkRat 884279719003555 281474976710656
def pySqrt3 : Rat := mkRat 7800463371553963 4503599627370496

def tableFn (tab : List (Rat × Rat × Rat)) (pick : Rat × Rat → Rat) : Rat → Rat :=
  fun t => match tab.find? (fun r => r.1 = t) with
    | some r => pick r.2
    | none => 0

def parseMat? (s : String) : Option (Mat Rat × List Rat) :=
  match s.splitOn ";" with
  | k :: rows => do
    let kl ← if k = "S" then some (Kind.solid, false) else if k = "L" then some (Kind.fluid, true)
      else if k = "C" then some (Kind.fluid, false) else none
    let tab ← rows.mapM (fun r => match r.splitOn "~" with
      | [t, p, rho] => do
        let t ← parseRat? t
        let p ← parseRat? p
        let rho ← parseRat? rho
        some (t, p, rho)
      | _ => none)
    some ({ kind := kl.1, liquid := kl.2, pct := tableFn tab (·.1), rho := tableFn tab (·.2) }, tab.map (·.1))
  | _ => none

/-- op and the temperatures it mentions -/
def parseOp? (mats : List (Mat Rat)) (s : String) : Option (Op Rat × List Rat) :=
  match s.splitOn "~" with
  | ["T", t] => (parseRat? t).map (fun t => (.setTemp t, [t]))
  | ["M", i] => do
    let i ← parseNat? i
    let m ← mats[i]?
    some (.setMat m, [])
  | ["H", k, v] => (parseRat? v).map (fun v => (.setDim k v false, []))
  | ["K", k, v] => (parseRat? v).map (fun v => (.setDim k v true, []))
  | ["N", nd] => (parseRatList? nd).map (fun nd => (.setND nd, []))
  | ["qF"] => some (.qFactor, [])
  | ["qD", k] => some (.qDim k false, [])
  | ["qDc", k] => some (.qDim k true, [])
  | ["qDT", k, t] => (parseRat? t).map (fun t => (.qDimTc k t, [t]))
  | ["qA"] => some (.qArea false, [])
  | ["qAc"] => some (.qArea true, [])
  | ["qAT", t] => (parseRat? t).map (fun t => (.qAreaTc t, [t]))
  | ["qV"] => some (.qVolume, [])
  | ["qM"] => some (.qMass, [])
  | ["qN"] => some (.qND, [])
  | _ => none

def parseCold? (s : String) : Option (List (String × Rat)) :=
  (s.splitOn ",").mapM (fun kv => match kv.splitOn "=" with
    | [k, v] => (parseRat? v).map (fun q => (k, q))
    | _ => none)

def histAnswer (sh cold h sym tin t0 nds ws mats ops : String) : Option String := do
  let shape ← if sh = "U" then some none else (Shape.ofName? sh).map some
  let cold ← parseCold? cold
  let height ← if h = "_" then some none else (parseRat? h).map some
  let sym ← parseRat? sym
  let tin ← parseRat? tin
  let t0 ← parseRat? t0
  let nd ← parseRatList? nds
  let w ← parseRatList? ws
  let ms ← parseList? parseMat? mats
  let m0 ← ms[0]?
  let ops ← parseList? (parseOp? (ms.map (·.1))) ops
  -- every temperature of the request must be in every material's table (never a silent default)
  let temps := tin :: t0 :: (ops.map (·.2)).flatten
  if ms.any (fun m => temps.any (fun t => !m.2.contains t)) then none else
  if nd.length ≠ w.length ∨ sym = 0 then none else
  let e : Env Rat := { same := fun a b => decide ((if a ≤ b then b - a else a - b) ≤ mkRat 1 10000000000),
                       pi := pyPi, sqrt3 := pySqrt3, sqrtF := sqrtApprox, height := height, sym := sym, w := w }
  let s : CState Rat := { mat := m0.1, tin := tin, temp := t0, nd := nd, shape := shape, cold := cold,
                          vol := none, stale := false }
  some (showList (showOpt (showList showRat)) (run e s (ops.map (·.1))).2)

def parseBComp? (mats : List (Mat Rat)) (s : String) : Option (BComp Rat × List Rat) :=
  match s.splitOn ";" with
  | [sh, mi, tin, t0, nds, ws, ds] => do
    let shape ← if sh = "U" then some none else (Shape.ofName? sh).map some
    let mi ← parseNat? mi
    let m ← mats[mi]?
    let tin ← parseRat? tin
    let t0 ← parseRat? t0
    let nd ← parseRatList? nds
    let w ← parseRatList? ws
    let dims ← (ds.splitOn ",").mapM parseDim?
    if nd.length ≠ w.length then none else
    some ({ mat := m, tin := tin, temp := t0, nd := nd, w := w, shape := shape, dims := dims, vol := none }, [tin, t0])
  | _ => none

def parseBOp? (mats : List (Mat Rat)) (s : String) : Option (BOp Rat × List Rat) :=
  match s.splitOn "~" with
  | ["T", i, t] => do
    let i ← parseNat? i
    let t ← parseRat? t
    some (.setTemp i t, [t])
  | ["M", i, m] => do
    let i ← parseNat? i
    let m ← parseNat? m
    let m ← mats[m]?
    some (.setMat i m, [])
  | ["H", i, k, v] => do
    let i ← parseNat? i
    let v ← parseRat? v
    some (.setDim i k v false, [])
  | ["K", i, k, v] => do
    let i ← parseNat? i
    let v ← parseRat? v
    some (.setDim i k v true, [])
  | ["HR", i, k, v] => do
    let i ← parseNat? i
    let v ← parseRat? v
    some (.setDimRetain i k v false, [])
  | ["KR", i, k, v] => do
    let i ← parseNat? i
    let v ← parseRat? v
    some (.setDimRetain i k v true, [])
  | ["L", i, k, j, k2] => do
    let i ← parseNat? i
    let j ← parseNat? j
    some (.setLink i k j k2, [])
  | ["qD", i, k] => (parseNat? i).map (fun i => (.qDim i k false, []))
  | ["qDc", i, k] => (parseNat? i).map (fun i => (.qDim i k true, []))
  | ["qA", i] => (parseNat? i).map (fun i => (.qArea i, []))
  | ["qV", i] => (parseNat? i).map (fun i => (.qVolume i, []))
  | ["qM", i] => (parseNat? i).map (fun i => (.qMass i, []))
  | ["qDA"] => some (.qDerivedArea, [])
  | ["qDV"] => some (.qDerivedVolume, [])
  | _ => none

def bhistAnswer (tr h maxA mats comps ops : String) : Option String := do
  -- flags: "T"/"F" (transitive; setLink does not clear) or two letters (transitive, linkClears)
  let (tr, lc) ← match tr.toList with
    | [a] => (parseBool? (String.singleton a)).map (fun a => (a, false))
    | [a, b] => do
      let a ← parseBool? (String.singleton a)
      let b ← parseBool? (String.singleton b)
      some (a, b)
    | _ => none
  let h ← parseRat? h
  let maxA ← parseRat? maxA
  let ms ← parseList? parseMat? mats
  let cs ← (comps.splitOn "|").mapM (parseBComp? (ms.map (·.1)))
  let ops ← parseList? (parseBOp? (ms.map (·.1))) ops
  let temps := (cs.map (·.2)).flatten ++ (ops.map (·.2)).flatten
  if ms.any (fun m => temps.any (fun t => !m.2.contains t)) then none else
  if h = 0 then none else
  let e : BEnv Rat := { same := fun a b => decide ((if a ≤ b then b - a else a - b) ≤ mkRat 1 10000000000),
                        pi := pyPi, sqrt3 := pySqrt3, sqrtF := sqrtApprox, h := h, maxArea := maxA, sym := 1, transitive := tr, linkClears := lc }
  let b : BState Rat := { comps := cs.map (·.1), stale := true, dArea := none, dVol := none }
  some (showList (showOpt (showList showRat)) (brun e b (ops.map (·.1))).2)

def answer : List String → String
  | ["bhist", tr, h, maxA, mats, comps, ops] =>
    match bhistAnswer tr h maxA mats comps ops with
    | some r => r
    | none => "bad-op"
  | ["hist", sh, cold, h, sym, tin, t0, nds, ws, mats, ops] =>
    match histAnswer sh cold h sym tin t0 nds ws mats ops with
    | some r => r
    | none => "bad-op"
  | ["area", sh, pi, s3, ds] =>
    match Shape.ofName? sh, parseRat? pi, parseRat? s3, parseRatList? ds with
    | some s, some pi, some s3, some ds =>
      if ds.length ≠ s.dims.length then "bad-op" else
      let d := valuation s.dims ds
      let root := match s with
        | .Helix => sqrtApprox (helixRadicand pi (d "axialPitch") (d "helixDiameter"))
        | _ => 0
      showRat (s.area pi s3 root d)
    | _, _, _, _ => "bad-op"
  | ["unshaped", f, a] =>
    match parseRat? f, parseRat? a with
    | some f, some a => showRat (areaUnshaped f a)
    | _, _ => "bad-op"
  | ["factor", k, a, b, same] =>
    match parseKind? k, parseRat? a, parseRat? b, parseBool? same with
    | some k, some a, some b, some same =>
      showOpt showRat (thermalExpansionFactor k (fun i : Nat => if i = 1 then a else b) 1 0 same)
    | _, _, _, _ => "bad-op"
  | ["path", ps, nds] =>
    match parseRatList? ps, parseRatList? nds with
    | some ps, some nds =>
      if ps.isEmpty then "bad-op" else
      let s := runPath (pctOf ps) { temp := 0, nd := nds } ((List.range ps.length).drop 1)
      showList showRat s.nd
    | _, _ => "bad-op"
  | ["fluidpath", rs, nds] =>
    match parseRatList? rs, parseRatList? nds with
    | some rs, some nds =>
      if rs.isEmpty then "bad-op" else
      let step := fun (acc : Nat × List Rat) (t : Nat) => (t, stepNDFluid (pctOf rs) acc.1 t acc.2)
      showList showRat (((List.range rs.length).drop 1).foldl step (0, nds)).2
    | _, _ => "bad-op"
  | ["getdim", sys, i, key, cold] =>
    match parseSys? sys, parseNat? i, parseBool? cold with
    | some sys, some i, some cold => showOpt showRat (getDimension sys (sys.length + 1) i key cold)
    | _, _, _ => "bad-op"
  | ["setdim", sys, i, key, v, cold, rc] =>
    match parseSys? sys, parseNat? i, parseRat? v, parseBool? cold, parseBool? rc with
    | some sys, some i, some v, some cold, some rc =>
      match sys[i]? with
      | none => "bad-op"
      | some c =>
        match setDimension c key v cold with
        | none => "reject"
        | some c' => showOpt showRat (getDimension (sys.set i c') (sys.length + 1) i key rc)
    | _, _, _, _, _ => "bad-op"
  | ["setdimat", sys, i, key, v, cold, retain, qi, qkey, rc] =>
    match parseSys? sys, parseNat? i, parseRat? v, parseBool? cold, parseBool? retain, parseNat? qi, parseBool? rc with
    | some sys, some i, some v, some cold, some retain, some qi, some rc =>
      match setDimensionAt sys i key v cold retain with
      | none => "reject"
      | some sys' => showOpt showRat (getDimension sys' (sys'.length + 1) qi qkey rc)
    | _, _, _, _, _, _, _ => "bad-op"
  | ["derivedarea", a, as] =>
    match parseRat? a, parseRatList? as with
    | some a, some as => showRat (derivedArea a as)
    | _, _ => "bad-op"
  | ["getdimtc", sys, fs, i, key] =>
    match parseSys? sys, parseList? (fun s => if s = "_" then some none else (parseRat? s).map some) fs, parseNat? i with
    | some sys, some fs, some i =>
      if fs.length ≠ sys.length then "bad-op" else showOpt showRat (getDimensionTc sys fs (sys.length + 1) i key)
    | _, _, _ => "bad-op"
  | _ => "bad-op"

def main : IO Unit := loop answer
