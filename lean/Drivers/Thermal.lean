import ArmiVerif.Model.Proto
import ArmiVerif.Model.Thermal
open ArmiVerif ArmiVerif.Proto ArmiVerif.Thermal

/-
requests (one per line):
  area <Shape> <pi> <sqrt3> [d1,..]          dims in `Shape.dims` order          -> area
  unshaped <factor> <coldArea>                                                    -> area
  factor <S|F> <pctTc> <pctT0> <same T|F>                                         -> factor | reject
  path [pct0,pct1,..,pctn] [nd..]      solid; pct at the start and at every visited temperature -> [nd..]
  fluidpath [rho0,..,rhon] [nd..]                                                 -> [nd..]
  getdim <sys> <i> <key> <cold T|F>                                               -> value | reject
  setdim <sys> <i> <key> <v> <cold T|F> <readCold T|F>                            -> value read back | reject
  setdimat <sys> <i> <key> <v> <cold> <retainLink> <qi> <qkey> <readCold>   set in a block, then read (qi,qkey)
  derivedarea <maxArea> [sibAreas]                                                -> area
  getdimtc <sys> [factorAtTc|_ per component] <i> <key>     getDimension(key, Tc=T)   -> value | reject
  <sys> := comp('|'comp)*   comp := <S|F>;<factor|_>;[expdim,..];name=val,name=@j.key,...
-/

def parseKind? (s : String) : Option Kind :=
  if s = "S" then some .solid else if s = "F" then some .fluid else none

def parseDim? (s : String) : Option (String × Dim) :=
  match s.splitOn "=" with
  | [k, v] =>
    if v.startsWith "@" then
      match ((v.drop 1).toString).splitOn "." with
      | [j, key] => (j.toNat?).map (fun j => (k, Dim.link j key))
      | _ => none
    else (parseRat? v).map (fun q => (k, Dim.val q))
  | _ => none

def parseComp? (s : String) : Option Comp :=
  match s.splitOn ";" with
  | [k, f, e, ds] => do
    let kind ← parseKind? k
    let factor ← if f = "_" then some none else (parseRat? f).map some
    let exp ← splitTop e
    let dims ← (ds.splitOn ",").mapM parseDim?
    some { kind := kind, factor := factor, expDims := exp, dims := dims }
  | _ => none

def parseSys? (s : String) : Option (List Comp) := (s.splitOn "|").mapM parseComp?

def valuation (names : List String) (vals : List Rat) : String → Rat :=
  fun k => match (names.zip vals).find? (fun p => p.1 = k) with
    | some p => p.2
    | none => 0

def pctOf (l : List Rat) : Nat → Rat := fun i => l.getD i 0

def answer : List String → String
  | ["area", sh, pi, s3, ds] =>
    match Shape.ofName? sh, parseRat? pi, parseRat? s3, parseRatList? ds with
    | some s, some pi, some s3, some ds =>
      if ds.length ≠ s.dims.length then "bad-op" else
      let d := valuation s.dims ds
      let root := match s with
        | .Helix => sqrtApprox (helixRadicand pi (d "axialPitch") (d "helixDiameter"))
        | _ => 0
      showRat (s.area pi s3 root d)
    | _, _, _, _ => "bad-op"
  | ["unshaped", f, a] =>
    match parseRat? f, parseRat? a with
    | some f, some a => showRat (areaUnshaped f a)
    | _, _ => "bad-op"
  | ["factor", k, a, b, same] =>
    match parseKind? k, parseRat? a, parseRat? b, parseBool? same with
    | some k, some a, some b, some same =>
      showOpt showRat (thermalExpansionFactor k (fun i : Nat => if i = 1 then a else b) 1 0 same)
    | _, _, _, _ => "bad-op"
  | ["path", ps, nds] =>
    match parseRatList? ps, parseRatList? nds with
    | some ps, some nds =>
      if ps.isEmpty then "bad-op" else
      let s := runPath (pctOf ps) { temp := 0, nd := nds } ((List.range ps.length).drop 1)
      showList showRat s.nd
    | _, _ => "bad-op"
  | ["fluidpath", rs, nds] =>
    match parseRatList? rs, parseRatList? nds with
    | some rs, some nds =>
      if rs.isEmpty then "bad-op" else
      let step := fun (acc : Nat × List Rat) (t : Nat) => (t, stepNDFluid (pctOf rs) acc.1 t acc.2)
      showList showRat (((List.range rs.length).drop 1).foldl step (0, nds)).2
    | _, _ => "bad-op"
  | ["getdim", sys, i, key, cold] =>
    match parseSys? sys, parseNat? i, parseBool? cold with
    | some sys, some i, some cold => showOpt showRat (getDimension sys (sys.length + 1) i key cold)
    | _, _, _ => "bad-op"
  | ["setdim", sys, i, key, v, cold, rc] =>
    match parseSys? sys, parseNat? i, parseRat? v, parseBool? cold, parseBool? rc with
    | some sys, some i, some v, some cold, some rc =>
      match sys[i]? with
      | none => "bad-op"
      | some c =>
        match setDimension c key v cold with
        | none => "reject"
        | some c' => showOpt showRat (getDimension (sys.set i c') (sys.length + 1) i key rc)
    | _, _, _, _, _ => "bad-op"
  | ["setdimat", sys, i, key, v, cold, retain, qi, qkey, rc] =>
    match parseSys? sys, parseNat? i, parseRat? v, parseBool? cold, parseBool? retain, parseNat? qi, parseBool? rc with
    | some sys, some i, some v, some cold, some retain, some qi, some rc =>
      match setDimensionAt sys i key v cold retain with
      | none => "reject"
      | some sys' => showOpt showRat (getDimension sys' (sys'.length + 1) qi qkey rc)
    | _, _, _, _, _, _, _ => "bad-op"
  | ["derivedarea", a, as] =>
    match parseRat? a, parseRatList? as with
    | some a, some as => showRat (derivedArea a as)
    | _, _ => "bad-op"
  | ["getdimtc", sys, fs, i, key] =>
    match parseSys? sys, parseList? (fun s => if s = "_" then some none else (parseRat? s).map some) fs, parseNat? i with
    | some sys, some fs, some i =>
      if fs.length ≠ sys.length then "bad-op" else showOpt showRat (getDimensionTc sys fs (sys.length + 1) i key)
    | _, _, _ => "bad-op"
  | _ => "bad-op"

def main : IO Unit := loop answer
