import ArmiVerif.Model.Proto
import ArmiVerif.Model.Tree
open ArmiVerif ArmiVerif.Proto ArmiVerif.Tree

/-- canonical state: per object `parent/kids/locator/grid`, objects in creation order.
locator: `d` detached, `a<h>` attached to the grid held by object h, `o` attached to a grid no live
object holds; grid: `n` none, `g<owner>` / `g_`. -/
def showNode (s : St) (n : Nat) : String :=
  let par := match s.parent n with | none => "_" | some p => toString p
  let ks := ",".intercalate ((s.kids n).map toString)
  let lc := match s.loc n with
    | none => "d"
    | some g => match holderOf s g with | some h => "a" ++ toString h | none => "o"
  let gr := match s.grid n with
    | none => "n"
    | some g => match s.owner g with | some o => "g" ++ toString o | none => "g_"
  par ++ "/" ++ ks ++ "/" ++ lc ++ "/" ++ gr

def showSt (s : St) : String := "|".intercalate ((List.range s.next).map (showNode s))

def res (r : St × Bool) : St × String := (r.1, (if r.2 then "ok " else "reject ") ++ showSt r.1)

def parseSpec? (s : String) : Option Spec :=
  if s = "_" then some Spec.none
  else if s.startsWith "f" then (parseNat? (String.ofList (s.toList.drop 1))).map Spec.one
  else (parseNatList? s).map Spec.many

def parsePred? (s : St) : List String → Option (Nat → Bool)
  | ["all"] => some (fun _ => true)   -- an explicit always-true predicate (`lambda o: True`)
  | ["par", k] => (parseNat? k).map (fun k => fun n => n % 2 == k)
  | ["mod3", k] => (parseNat? k).map (fun k => fun n => n % 3 == k)
  | ["type", t] => (parseNat? t).map (fun t => fun n => s.typ n == t)
  | ["flags", sp, ex] => do
      let sp ← parseSpec? sp
      let ex ← parseBool? ex
      some (fun n => hasFlags (s.flags n) sp ex)
  | _ => none

/-- `none` = the query is called without a predicate (`predicate=None`) -/
def parsePredOpt? (s : St) : List String → Option (Option (Nat → Bool))
  | ["none"] => some none
  | ws => (parsePred? s ws).map some

def inRange (s : St) (l : List Nat) : Bool := l.all (fun x => x < s.next)

def stepLine (s : St) (ws : List String) : St × String :=
  let bad := (s, "bad-op")
  match ws with
  | ["reset"] => (St.empty, "ok ")
  | ["new", k, f, t, g, b] => match parseNat? k, parseNat? f, parseNat? t, parseBool? g, parseBool? b with
      | some k, some f, some t, some g, some b => res (newNode s k f t g b, true)
      | _, _, _, _, _ => bad
  -- fixture set-up only (mirror an existing real tree): raw Composite.add, locator into h's grid
  | ["rawadd", p, c] => match parseNat? p, parseNat? c with
      | some p, some c => if inRange s [p, c] then res (cAdd s p c) else bad
      | _, _ => bad
  | ["setloc", c, h] => match parseNat? c, parseNat? h with
      | some c, some h => if inRange s [c, h] then res (setLoc s c (s.grid h), true) else bad
      | _, _ => bad
  | ["replace", b, r] => match parseNat? b, parseNat? r with
      | some b, some r => if inRange s [b, r] then res (replaceBlock s b r) else bad
      | _, _ => bad
  | ["moveto", c, h] => match parseNat? c, parseNat? h with
      | some c, some h => if inRange s [c, h] then res (moveTo s c h) else bad
      | _, _ => bad
  | ["add", p, c] => match parseNat? p, parseNat? c with
      | some p, some c => if inRange s [p, c] then res (add s p c) else bad
      | _, _ => bad
  | ["insert", p, i, c] => match parseNat? p, parseInt? i, parseNat? c with
      | some p, some i, some c => if inRange s [p, c] then res (insert s p i c) else bad
      | _, _, _ => bad
  | ["remove", p, c] => match parseNat? p, parseNat? c with
      | some p, some c => if inRange s [p, c] then res (remove s p c) else bad
      | _, _ => bad
  -- SpentFuelPool.add / ExcoreStructure.add
  | ["sfpadd", p, c] => match parseNat? p, parseNat? c with
      | some p, some c => if inRange s [p, c] then res (excoreAdd s p c) else bad
      | _, _ => bad
  -- Core.removeAssembly(a, discharge): `discharge core a sfp` (sfp `_` = purge / not tracked / no pool)
  | ["discharge", co, a, sfp] => match parseNat? co, parseNat? a with
      | some co, some a =>
        if sfp = "_" then (if inRange s [co, a] then res (removeAssembly s co a none) else bad)
        else match parseNat? sfp with
          | some p => if inRange s [co, a, p] then res (removeAssembly s co a (some p)) else bad
          | none => bad
      | _, _ => bad
  | ["setmeta", c, f, t] => match parseNat? c, parseNat? f, parseNat? t with
      | some c, some f, some t => if inRange s [c] then res (setMeta s c f t, true) else bad
      | _, _, _ => bad
  | ["removeAll", p] => match parseNat? p with
      | some p => if inRange s [p] then res (removeAllCode s p) else bad
      | _ => bad
  | ["setChildren", p, l] => match parseNat? p, parseNatList? l with
      | some p, some l => if inRange s (p :: l) then res (setChildrenCode s p l) else bad
      | _, _ => bad
  | ["append", p, c] => match parseNat? p, parseNat? c with
      | some p, some c => if inRange s [p, c] then res (cAppend s p c, true) else bad
      | _, _ => bad
  | ["extend", p, l] => match parseNat? p, parseNatList? l with
      | some p, some l => if inRange s (p :: l) then res (cExtend s p l, true) else bad
      | _, _ => bad
  | ["sort", p, r] => match parseNat? p, parseNatList? r with
      | some p, some r => if inRange s [p] then res (step s (.sort p r), true) else bad
      | _, _ => bad
  | ["reest", a] => match parseNat? a with
      | some a => if inRange s [a] then res (reestablish s a, true) else bad
      | _ => bad
  | ["copy", n] => match parseNat? n with
      | some n => if inRange s [n] then res (copyTree s n, true) else bad
      | _ => bad
  | "iter" :: n :: deep :: g :: pred => match parseNat? n, parseBool? deep, parseInt? g, parsePredOpt? s pred with
      | some n, some deep, some g, some chk =>
        if inRange s [n] then
          (s, match getChildren s (s.next + 1) deep g chk n with
              | none => "reject"
              | some l => showList toString l)
        else bad
      | _, _, _, _ => bad
  -- getChildren(includeMaterials=True) / iterChildrenWithMaterials
  | "itermat" :: n :: deep :: g :: pred => match parseNat? n, parseBool? deep, parseInt? g, parsePredOpt? s pred with
      | some n, some deep, some g, some chk =>
        if inRange s [n] then
          (s, match getChildrenWithMaterials s (s.next + 1) deep g chk n with
              | none => "reject"
              | some l => showList (fun i => match i with | Item.obj c => toString c | Item.mat c => "m" ++ toString c) l)
        else bad
      | _, _, _, _ => bad
  | ["kidsflags", n, sp, ex] => match parseNat? n, parseSpec? sp, parseBool? ex with
      | some n, some sp, some ex =>
        if inRange s [n] then (s, showList toString (getChildrenWithFlags s (s.next + 1) sp ex n)) else bad
      | _, _, _ => bad
  | ["kidstype", n, t] => match parseNat? n, parseNat? t with
      | some n, some t => if inRange s [n] then (s, showList toString (getChildrenOfType s (s.next + 1) t n)) else bad
      | _, _ => bad
  | ["first", n, sp, ex] => match parseNat? n, parseSpec? sp, parseBool? ex with
      | some n, some sp, some ex =>
        if inRange s [n] then (s, match getFirstBlock s (s.next + 1) sp ex n with | none => "none" | some c => toString c) else bad
      | _, _, _ => bad
  | ["firsttype", n, t] => match parseNat? n, parseNat? t with
      | some n, some t =>
        if inRange s [n] then (s, match getFirstBlockByType s t n with | none => "none" | some c => toString c) else bad
      | _, _ => bad
  | ["ancflags", n, sp, ex] => match parseNat? n, parseSpec? sp, parseBool? ex with
      | some n, some sp, some ex =>
        if inRange s [n] then
          (s, match getAncestorWithFlags s (s.next + 1) sp ex n with | none => "none" | some a => toString a)
        else bad
      | _, _, _ => bad
  | ["comps", n, sp, ex] => match parseNat? n, parseSpec? sp, parseBool? ex with
      | some n, some sp, some ex =>
        if inRange s [n] then
          -- Composite.iterComponents chains the children's; Component.iterComponents is the leaf case
          (s, showList toString (iterComps s (s.next + 1) sp ex n))
        else bad
      | _, _, _ => bad
  | "anc" :: n :: pred => match parseNat? n, parsePred? s pred with
      | some n, some fn =>
        if inRange s [n] then
          (s, match getAncestor s (s.next + 1) fn n 0 with
              | none => "none"
              | some (a, d) => "(" ++ toString a ++ "," ++ toString d ++ ")")
        else bad
      | _, _ => bad
  | _ => bad

/-! Interpreter plumbing only: between requests the state is kept as plain arrays (extensionally the same
functions on every object / grid id ever created; the initial defaults beyond), so that look-ups do not
walk a chain of update closures that grows with the length of the edit sequence. -/
structure Data where
  parent : Array (Option Nat)
  kids : Array (List Nat)
  loc : Array (Option Nat)
  grid : Array (Option Nat)
  owner : Array (Option Nat)
  kind : Array Nat
  flags : Array Nat
  typ : Array Nat
  truthy : Array Bool
  next : Nat
  nextGrid : Nat

def Data.empty : Data :=
  { parent := #[], kids := #[], loc := #[], grid := #[], owner := #[], kind := #[], flags := #[], typ := #[], truthy := #[],
    next := 0, nextGrid := 0 }

def inject (d : Data) : St :=
  { parent := fun x => d.parent.getD x none
    kids := fun x => d.kids.getD x []
    loc := fun x => d.loc.getD x none
    grid := fun x => d.grid.getD x none
    owner := fun g => d.owner.getD g none
    kind := fun x => d.kind.getD x 0
    flags := fun x => d.flags.getD x 0
    typ := fun x => d.typ.getD x 0
    truthy := fun x => d.truthy.getD x true
    next := d.next
    nextGrid := d.nextGrid }

def extract (s : St) : Data :=
  let rn := Array.range s.next
  { parent := rn.map (fun x => s.parent x)
    kids := rn.map (fun x => s.kids x)
    loc := rn.map (fun x => s.loc x)
    grid := rn.map (fun x => s.grid x)
    owner := (Array.range s.nextGrid).map (fun g => s.owner g)
    kind := rn.map (fun x => s.kind x)
    flags := rn.map (fun x => s.flags x)
    typ := rn.map (fun x => s.typ x)
    truthy := rn.map (fun x => s.truthy x)
    next := s.next
    nextGrid := s.nextGrid }

def stepD (d : Data) (ws : List String) : Data × String :=
  let r := stepLine (inject d) ws
  (extract r.1, r.2)

def main : IO Unit := loopState Data.empty stepD
