import ArmiVerif.Model.Proto
import ArmiVerif.Model.XsGroup
open ArmiVerif ArmiVerif.Proto ArmiVerif.XsGroup

/-- block = [valid(0/1), vol, wparam, vals…] -/
def parseBlk (s : String) : Option Blk := do
  let xs ← parseRatList? s
  match xs with
  | v :: vol :: wp :: vals => some ⟨v != 0, vol, wp, vals⟩
  | _ => none

def parseBlks (s : String) : Option (List Blk) := parseList? parseBlk s
def parseKeys (s : String) : Option (List (List Nat)) := parseList? parseNatList? s

def showNats (l : List Nat) : String := showList toString l

def answer : List String → String
  | ["l2n", l] => match parseNatList? l with
      | some l => showOpt toString (labelToNumber l) | none => "bad-op"
  | ["n2l", n] => match parseNat? n with
      | some n => showOpt showNats (numberToLabel n) | none => "bad-op"
  | ["envnum", c] => match parseNat? c with
      | some c => toString (envCharToNum c) | none => "bad-op"
  | ["envchar", n] => match parseNat? n with
      | some n => showOpt toString (envNumToChar n) | none => "bad-op"
  | ["suffix", x, e] => match parseNatList? x, parseNatList? e with
      | some x, some e => showOpt showNats (microSuffix x e) | _, _ => "bad-op"
  | ["envgroup", bu, bb, ut, t, tb] =>
      match parseRat? bu, parseRatList? bb, parseBool? ut, parseRat? t, parseRatList? tb with
      | some bu, some bb, some ut, some t, some tb => match envGroupNum bu bb ut t tb with
          | some n => toString n | none => "_"
      | _, _, _, _, _ => "bad-op"
  | ["groups", ks] => match parseKeys ks with
      | some ks =>
        let idx := (List.range ks.length).zip ks
        showList (fun (g : List Nat × List (Nat × List Nat)) =>
          "[" ++ showNats g.1 ++ "," ++ showNats (g.2.map (·.1)) ++ "]") (groups (·.2) idx)
      | none => "bad-op"
  | ["weight", p, b] => match parseBool? p, parseBlk b with
      | some p, some b => showRat (getWeight p b) | _, _ => "bad-op"
  | ["avg", p, n, bs] => match parseBool? p, parseNat? n, parseBlks bs with
      | some p, some n, some bs => showOpt (showList showRat) (average p n bs) | _, _, _ => "bad-op"
  | ["burnup", p, bs] => match parseBool? p, parseBlks bs with
      | some p, some bs => showOpt showRat (weightedBurnup p bs) | _, _ => "bad-op"
  | ["wmean", ws, xs] => match parseRatList? ws, parseRatList? xs with
      | some ws, some xs => if rsum ws = 0 ∨ ws.length ≠ xs.length then "reject" else showRat (wmean ws xs)
      | _, _ => "bad-op"
  | ["median", p, bs, names] => match parseBool? p, parseBlks bs, parseKeys names with
      | some p, some bs, some names =>
        if bs.length ≠ names.length then "bad-op" else showOpt toString (medianIndex p (bs.zip names))
      | _, _, _ => "bad-op"
  | _ => "bad-op"

def main : IO Unit := loop answer
