import ArmiVerif.Model.Proto
import ArmiVerif.Model.XsGroup
open ArmiVerif ArmiVerif.Proto ArmiVerif.XsGroup

/-- block = [valid(0/1), vol, wparam, vals…] -/
def parseBlk (s : String) : Option Blk := do
  let xs ← parseRatList? s
  match xs with
  | v :: vol :: wp :: vals => some ⟨v != 0, vol, wp, vals⟩
  | _ => none

def parseBlks (s : String) : Option (List Blk) := parseList? parseBlk s
def parseKeys (s : String) : Option (List (List Nat)) := parseList? parseNatList? s

def showNats (l : List Nat) : String := showList toString l


/-- EBlk = [bu, useTemp(0/1), tempC, env] -/
def parseEBlk (s : String) : Option EBlk := do
  let xs ← parseRatList? s
  match xs with
  | [bu, ut, t, e] => if e.den = 1 ∧ 0 ≤ e.num then some ⟨bu, ut != 0, t, e.num.toNat⟩ else none
  | _ => none

/-- MBlk = [xs, env, valid(0/1)] -/
def parseMBlk (s : String) : Option MBlk := do
  let xs ← parseNatList? s
  match xs with
  | [x, e, v] => some ⟨x, e, v != 0⟩
  | _ => none

/-- CompT = [declared(0/1), n, vf, temp] -/
def parseCompT (s : String) : Option CompT := do
  let xs ← parseRatList? s
  match xs with
  | [d, n, vf, t] => some ⟨d != 0, n, vf, t⟩
  | _ => none

/-- TBlk = [valid(0/1), vol, wparam, [comp…]] -/
def parseTBlk (s : String) : Option TBlk := do
  let parts ← splitTop s
  match parts with
  | [v, vol, wp, cs] => do
    let v ← parseRat? v
    let vol ← parseRat? vol
    let wp ← parseRat? wp
    let cs ← parseList? parseCompT cs
    some ⟨v != 0, vol, wp, cs⟩
  | _ => none

def showGroupsIdx (gs : List (List Nat × List (Nat × List Nat))) : String :=
  showList (fun (g : List Nat × List (Nat × List Nat)) =>
    "[" ++ showNats g.1 ++ "," ++ showNats (g.2.map (·.1)) ++ "]") gs

def answer : List String → String
  | ["l2n", l] => match parseNatList? l with
      | some l => showOpt toString (labelToNumber l) | none => "bad-op"
  | ["n2l", n] => match parseNat? n with
      | some n => showOpt showNats (numberToLabel n) | none => "bad-op"
  | ["envnum", c] => match parseNat? c with
      | some c => toString (envCharToNum c) | none => "bad-op"
  | ["envchar", n] => match parseNat? n with
      | some n => showOpt toString (envNumToChar n) | none => "bad-op"
  | ["suffix", x, e] => match parseNatList? x, parseNatList? e with
      | some x, some e => showOpt showNats (microSuffix x e) | _, _ => "bad-op"
  | ["envgroup", bu, bb, ut, t, tb] =>
      match parseRat? bu, parseRatList? bb, parseBool? ut, parseRat? t, parseRatList? tb with
      | some bu, some bb, some ut, some t, some tb => match envGroupNum bu bb ut t tb with
          | some n => toString n | none => "_"
      | _, _, _, _, _ => "bad-op"
  | ["groups", ks] => match parseKeys ks with
      | some ks =>
        let idx := (List.range ks.length).zip ks
        showList (fun (g : List Nat × List (Nat × List Nat)) =>
          "[" ++ showNats g.1 ++ "," ++ showNats (g.2.map (·.1)) ++ "]") (groups (·.2) idx)
      | none => "bad-op"
  | ["weight", p, b] => match parseBool? p, parseBlk b with
      | some p, some b => showRat (getWeight p b) | _, _ => "bad-op"
  | ["avg", p, n, bs] => match parseBool? p, parseNat? n, parseBlks bs with
      | some p, some n, some bs => showOpt (showList showRat) (average p n bs) | _, _, _ => "bad-op"
  | ["burnup", p, bs] => match parseBool? p, parseBlks bs with
      | some p, some bs => showOpt showRat (weightedBurnup p bs) | _, _ => "bad-op"
  | ["wmean", ws, xs] => match parseRatList? ws, parseRatList? xs with
      | some ws, some xs => if rsum ws = 0 ∨ ws.length ≠ xs.length then "reject" else showRat (wmean ws xs)
      | _, _ => "bad-op"
  | ["median", p, bs, names] => match parseBool? p, parseBlks bs, parseKeys names with
      | some p, some bs, some names =>
        if bs.length ≠ names.length then "bad-op" else showOpt toString (medianIndex p (bs.zip names))
      | _, _, _ => "bad-op"
  | ["bubounds", bs] => match parseRatList? bs with
      | some bs => showOpt (showList showRat) (setBuGroupBounds bs) | none => "bad-op"
  | ["tbounds", bs] => match parseRatList? bs with
      | some bs => showOpt (showList showRat) (setTempGroupBounds bs) | none => "bad-op"
  | ["updenv", en, bb, tb, bs] => match parseBool? en, parseRatList? bb, parseRatList? tb, parseList? parseEBlk bs with
      | some en, some bb, some tb, some bs => showOpt showNats (updateEnvironmentGroups en bb tb bs)
      | _, _, _, _ => "bad-op"
  | ["eligible", f, spec] => match parseNat? f, parseNatList? spec with
      | some f, some spec => showBool (eligible f spec) | _, _ => "bad-op"
  | ["mkgroups", ck, bk] => match parseKeys ck, parseKeys bk with
      | some ck, some bk =>
        let core := (List.range ck.length).zip ck
        let bp := ((List.range bk.length).map (· + ck.length)).zip bk
        showGroupsIdx (makeGroups (·.2) core bp)
      | _, _ => "bad-op"
  | ["mgr", bs, pg] => match parseList? parseMBlk bs, parseKeys pg with
      | some bs, some pg =>
        let pregen := fun k => pg.contains k
        showList showNats (representedKeys pregen bs) ++ " " ++ showList showNats (unrepresentedKeys pregen bs) ++ " " ++
          showNats ((modifyUnrepresented pregen bs).map (·.env))
      | _, _ => "bad-op"
  | ["nextxs", n, al] => match parseNat? n, parseKeys al with
      | some n, some al => showOpt showNats (nextAvailableXsTypes n al) | _, _ => "bad-op"
  | ["ctemp", ws, ms, ts] => match parseRatList? ws, parseRatList? ms, parseRatList? ts with
      | some ws, some ms, some ts =>
        if ws.length ≠ ms.length ∨ ws.length ≠ ts.length then "bad-op" else showOpt showRat (componentTemperature ws ms ts)
      | _, _, _ => "bad-op"
  | ["ntemp", p, bs] => match parseBool? p, parseList? parseTBlk bs with
      | some p, some bs => showRat (avgNuclideTemperature p bs) | _, _ => "bad-op"
  | ["btemp", vol, cs] => match parseRat? vol, parseList? parseCompT cs with
      | some vol, some cs => showRat (blockNuclideTemperature vol cs) | _, _ => "bad-op"
  | ["mtemp", vol, cs] => match parseRat? vol, parseList? parseCompT cs with
      | some vol, some cs => showRat (medianNuclideTemperature ⟨true, vol, 0, cs⟩) | _, _ => "bad-op"
  | ["areaavg", bw, ar, xs] => match parseRatList? bw, parseRatList? ar, parseRatList? xs with
      | some bw, some ar, some xs =>
        if bw.length ≠ ar.length ∨ bw.length ≠ xs.length then "bad-op" else showRat (areaAverage bw ar xs)
      | _, _, _ => "bad-op"
  | ["modids", al, reps, bs] => match parseKeys al, parseKeys reps, parseList? parseMBlk bs with
      | some al, some reps, some bs => match modifiedIds al reps bs with
        | none => "reject"
        | some (_, acc) => showList (fun (p : List Nat × List Nat) => "[" ++ showNats p.1 ++ "," ++ showNats p.2 ++ "]") acc
      | _, _, _ => "bad-op"
  | ["similar", abc, fls] => match parseBool? abc, parseKeys fls with
      | some abc, some fls => showOpt showBool (performAverageByComponent abc fls)
      | _, _ => "bad-op"
  | _ => "bad-op"

def main : IO Unit := loop answer
