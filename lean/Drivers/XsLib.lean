import ArmiVerif.Model.Proto
import ArmiVerif.Model.XsLib
open ArmiVerif ArmiVerif.Proto ArmiVerif.XsLib

/-! Line protocol of the C10 model (see harness/c10.py for the encoders).
lib   := [[p,p,p,p,p],fm,fm,fm,[nuc,...]]      p := _ | N | nat
fm    := [meta,[file,...]]                      meta := [[k,v],...]
nuc   := [label,meta,meta,meta,slots,slots,slots]   slots := [N|nat,...]
entry := [M,dens] | [P,dens,N|vec,mult]         mult := [U] | [S,rat] | [V,vec] | [N]
mergeall lib...  -> [T|F,...] lib        (every merge attempted, rejected ones keep their partial mutations)
mergeallchi lib...  -> as mergeall, file-wide chi included (fisFlag must be absent / 0 / 1)
mergeseqA / mergeallA / mergeallchiA: the same over Lib.mergeAtomic (merge with rollback, candidate fix)
function level: propset p N|nat | metamerge meta meta | filemetamerge fm fm | collmerge slots slots | nucmerge nuc nuc
wf lib...           -> T|F per library: Lib.WFB (domain of the merge theorems) and no file-wide chi
macromult [[entry,T|F],...]              (flag: found in multLib)
creator ng minDens T|F [[name,dens],...] [[name,[N|vec x9],N|vec,N|mat,N|mat,N|mat],...]
-/

def optVal? (s : String) : Option (Option Val) :=
  if s = "N" then some none else (parseNat? s).map some

def prop? (s : String) : Option Prop' :=
  if s = "_" then some none else (optVal? s).map some

def pair? (s : String) : Option (Key × Val) := do
  match ← parseNatList? s with
  | [k, v] => some (k, v)
  | _ => none

def meta? (s : String) : Option Meta := parseList? pair? s

def fileMeta? (s : String) : Option FileMeta := do
  match ← splitTop s with
  | [m, f] => some ⟨← meta? m, ← parseNatList? f⟩
  | _ => none

def slots? (s : String) : Option (List (Option Val)) := parseList? optVal? s

def nuc? (s : String) : Option (Label × Nuc) := do
  match ← splitTop s with
  | [l, i, g, p, m, x, a] =>
    some (← parseNat? l, ⟨← meta? i, ← meta? g, ← meta? p, Coll.ofSlots (← slots? m),
      Coll.ofSlots (← slots? x), ← slots? a⟩)
  | _ => none

def lib? (s : String) : Option Lib := do
  match ← splitTop s with
  | [ps, i, p, g, ns] =>
    match ← parseList? prop? ps with
    | [a, b, c, d, e] => some ⟨a, b, c, d, e, ← fileMeta? i, ← fileMeta? p, ← fileMeta? g, ← parseList? nuc? ns⟩
    | _ => none
  | _ => none

def showOptVal : Option Val → String
  | none => "N"
  | some v => toString v

def showProp : Prop' → String
  | none => "_"
  | some v => showOptVal v

def sortMeta (m : Meta) : Meta := m.mergeSort (fun a b => a.1 ≤ b.1)

def showMeta (m : Meta) : String :=
  showList (fun (p : Key × Val) => "[" ++ toString p.1 ++ "," ++ toString p.2 ++ "]") (sortMeta m)

def showFileMeta (f : FileMeta) : String :=
  "[" ++ showMeta f.data ++ "," ++ showList toString (f.files.mergeSort (· ≤ ·)) ++ "]"

def showColl : Coll → String
  | none => "[]"
  | some s => showList showOptVal s

def showNuc (p : Label × Nuc) : String :=
  "[" ++ toString p.1 ++ "," ++ showMeta p.2.iso ++ "," ++ showMeta p.2.gam ++ "," ++ showMeta p.2.pm ++ ","
    ++ showColl p.2.micros ++ "," ++ showColl p.2.gamma ++ "," ++ showList showOptVal p.2.attrs ++ "]"

def showLib (l : Lib) : String :=
  "[" ++ showList showProp [l.ndcf, l.nEnergy, l.nVel, l.gEnergy, l.gdcf] ++ "," ++ showFileMeta l.isoMeta ++ ","
    ++ showFileMeta l.pmMeta ++ "," ++ showFileMeta l.gamMeta ++ ","
    ++ showList showNuc (l.nucs.mergeSort (fun a b => a.1 ≤ b.1)) ++ "]"

def vec? (s : String) : Option Vec := parseRatList? s
def mat? (s : String) : Option Mat := parseList? vec? s
def optVec? (s : String) : Option (Option Vec) := if s = "N" then some none else (vec? s).map some
def optMat? (s : String) : Option (Option Mat) := if s = "N" then some none else (mat? s).map some

def mult? (s : String) : Option Mult := do
  match ← splitTop s with
  | ["U"] => some .one
  | ["N"] => some .none
  | ["S", c] => some (.scalar (← parseRat? c))
  | ["V", v] => some (.vec (← vec? v))
  | _ => none

def entry? (s : String) : Option Entry := do
  match ← splitTop s with
  | ["M", d] => some (.missing (← parseRat? d))
  | ["P", d, m, k] => some (.present (← parseRat? d) (← optVec? m) (← mult? k))
  | _ => none

def entries? (s : String) : Option (List Entry) := parseList? entry? s

def showVec (v : Vec) : String := showList showRat v
def showMat (m : Mat) : String := showList showVec m

def showMacro : Option (Option Vec) → String
  | none => "reject"
  | some none => "none"
  | some (some v) => showVec v

def scatItem? (s : String) : Option (Rat × Option Mat) := do
  match ← splitTop s with
  | [d, m] => some (← parseRat? d, ← optMat? m)
  | _ => none

def chiItem? (s : String) : Option (Rat × Vec × Vec × Vec) := do
  match ← splitTop s with
  | [d, c, n, f] => some (← parseRat? d, ← vec? c, ← vec? n, ← vec? f)
  | _ => none

def orBad (o : Option String) : String := o.getD "bad-op"

def bool? (s : String) : Option Bool := if s = "T" then some true else if s = "F" then some false else none

def entryFlag? (s : String) : Option (Entry × Bool) := do
  match ← splitTop s with
  | [e, f] => some (← entry? e, ← bool? f)
  | _ => none

def densItem? (s : String) : Option (Nat × Rat) := do
  match ← splitTop s with
  | [k, d] => some (← parseNat? k, ← parseRat? d)
  | _ => none

def mnuc? (s : String) : Option (Nat × MNuc) := do
  match ← splitTop s with
  | [k, vs, nu, a, b, c] =>
    some (← parseNat? k, ⟨← parseList? optVec? vs, ← optVec? nu, ← optMat? a, ← optMat? b, ← optMat? c⟩)
  | _ => none

def showCOut (o : COut) : String :=
  showList showVec o.basics ++ " " ++ showVec o.nuSigF ++ " " ++ showVec o.total ++ " " ++ showVec o.transport ++ " "
    ++ showVec o.absorption ++ " " ++ showMat o.el ++ " " ++ showMat o.inel ++ " " ++ showMat o.n2nS ++ " "
    ++ showMat o.totalScatter ++ " " ++ showVec o.removal

def answer : List String → String
  | "mergeseq" :: libs => orBad do
      let ls ← libs.mapM lib?
      if !(ls.all Lib.inDomain) then some "out-of-domain" else
      let r := mergeSeq Lib.empty ls
      some (toString r.1 ++ " " ++ showBool r.2.1 ++ " " ++ showLib r.2.2)
  | ["merge2", a, b] => orBad do
      let a ← lib? a
      let b ← lib? b
      if !(a.inDomain && b.inDomain) then some "out-of-domain" else
      let r := Lib.merge a b
      some (showBool r.1 ++ " " ++ showLib r.2)
  | "mergeall" :: libs => orBad do
      let ls ← libs.mapM lib?
      if !(ls.all Lib.inDomain) then some "out-of-domain" else
      let r := mergeAll Lib.empty ls
      some (showList showBool r.1 ++ " " ++ showLib r.2)
  | "mergeallchi" :: libs => orBad do
      let ls ← libs.mapM lib?
      if !(ls.all Lib.fisDomain) then some "out-of-domain" else
      let r := mergeAllChi Lib.empty ls
      some (showList showBool r.1 ++ " " ++ showLib r.2)
  | "mergeseqA" :: libs => orBad do
      let ls ← libs.mapM lib?
      if !(ls.all Lib.inDomain) then some "out-of-domain" else
      let r := mergeSeqAtomic Lib.empty ls
      some (toString r.1 ++ " " ++ showBool r.2.1 ++ " " ++ showLib r.2.2)
  | "mergeallA" :: libs => orBad do
      let ls ← libs.mapM lib?
      if !(ls.all Lib.inDomain) then some "out-of-domain" else
      let r := mergeAllAtomic Lib.empty ls
      some (showList showBool r.1 ++ " " ++ showLib r.2)
  | "mergeallchiA" :: libs => orBad do
      let ls ← libs.mapM lib?
      if !(ls.all Lib.fisDomain) then some "out-of-domain" else
      let r := mergeAllAtomic Lib.empty ls
      some (showList showBool r.1 ++ " " ++ showLib r.2)
  | ["propset", cur, v] => orBad do
      some (showOpt showProp (Prop'.set (← prop? cur) (← optVal? v)))
  | ["metamerge", a, b] => orBad do
      some (showOpt showMeta (Meta.merge [] (← meta? a) (← meta? b)))
  | ["filemetamerge", a, b] => orBad do
      some (showOpt showFileMeta (FileMeta.mergeChi (← fileMeta? a) (← fileMeta? b)))
  | ["collmerge", a, b] => orBad do
      some (showOpt showColl (Coll.merge (Coll.ofSlots (← slots? a)) (Coll.ofSlots (← slots? b))))
  | ["nucmerge", a, b] => orBad do
      let x ← nuc? a
      let y ← nuc? b
      let r := Nuc.merge x.2 y.2
      some (showBool r.1 ++ " " ++ showNuc (x.1, r.2))
  | "wf" :: libs => orBad do
      let ls ← libs.mapM lib?
      some (" ".intercalate (ls.map (fun l => showBool (l.WFB && l.inDomain))))
  | ["macromult", es] => orBad do some (showMacro (macroXSMult (← parseList? entryFlag? es)))
  | ["creator", ng, minD, b, items, lib] => orBad do
      some (showOpt showCOut (creator (← parseNat? ng) (← parseRat? minD) (← bool? b)
        (← parseList? densItem? items) (← parseList? mnuc? lib)))
  | ["macro", es] => orBad do some (showMacro (macroXS (← entries? es)))
  | ["edep", j, es] => orBad do
      some (showOpt showVec (energyDeposition (← parseRat? j) (← entries? es)))
  | ["capture", p, ws] => orBad do
      some (showOpt showVec (captureEnergy (← entries? p) (← parseList? entries? ws)))
  | ["scatter", ng, items] => orBad do
      some (showMat (scatterMacro (← parseNat? ng) (← parseList? scatItem? items)))
  | ["totscat", a, b, c] => orBad do some (showMat (totalScatter (← mat? a) (← mat? b) (← mat? c)))
  | ["absorption", ng, parts] => orBad do
      some (showVec (absorption (← parseNat? ng) (← parseList? vec? parts)))
  | ["removal", ng, a, n, t] => orBad do
      some (showVec (removal (← parseNat? ng) (← vec? a) (← vec? n) (← mat? t)))
  | ["chi", ng, items] => orBad do
      some (showVec (blockChi (← parseNat? ng) (← parseList? chiItem? items)))
  | _ => "bad-op"

def main : IO Unit := loop answer
