import io, struct
from armi.nuclearDataIO.cccc import cccc
# F1: rwLong framing
buf = io.BytesIO()
w = cccc.BinaryRecordWriter(buf)
w.open(); w.rwInt(7); w.rwLong(123456789012); w.rwDouble(1.5); w.rwString("AB",6); w.close()
b = buf.getvalue()
lead = struct.unpack("i", b[:4])[0]; trail = struct.unpack("i", b[-4:])[0]
print("F1 lead",lead,"trail",trail,"payload",len(b)-8)
# F4: add of parented object
from armi.reactor import composites
A=composites.Composite("A"); B=composites.Composite("B"); x=composites.Composite("x")
A.add(x); B.add(x)
print("F4a x.parent",x.parent.name,"A lists x",x in A,"B lists x", x in B)
y=composites.Composite("y"); A.add(y)
try:
    B.remove(y)
except Exception as e:
    print("F4b remove non-child:",type(e).__name__,"y.parent",y.parent,"A lists y", y in A)
z=composites.Composite("z"); A.append(z); print("F4c append: z.parent",z.parent,"in A",z in A)
