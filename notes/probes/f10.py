import os, copy
from armi import configure
import armi
if not armi.isConfigured(): configure()
from armi.reactor.tests import test_reactors
from armi.tests import TEST_ROOT
from armi.reactor.flags import Flags
from armi.reactor.converters import geometryConverters as gc
o, r = test_reactors.loadTestReactor(TEST_ROOT)
core = r.core
def cells(core): return sorted((tuple(int(v) for v in a.spatialLocator.indices[:2]), a.getType()) for a in core)
base = cells(core)
ec = gc.EdgeAssemblyChanger(); ec.addEdgeAssemblies(core)
withEdge = cells(core)
print("base", len(base), "with edges", len(withEdge))
ch = gc.ThirdCoreHexToFullCoreChanger(o.cs)
ch.convert(r)
full = cells(core); print("full", len(full), "expected 3n-2 =", 3*len(base)-2)
ch.restorePreviousGeometry(r)
after = cells(core)
print("after restore", len(after), "== withEdge?", after==withEdge, "== base?", after==base)
