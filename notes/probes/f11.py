import os, copy
from armi import configure
import armi
if not armi.isConfigured(): configure()
from armi.reactor.tests import test_reactors
from armi.tests import TEST_ROOT
from armi.reactor.flags import Flags
o, r = test_reactors.loadTestReactor(TEST_ROOT)
core = r.core
print("n assemblies", len(core), "symmetry", core.symmetry, "sfp", r.excore.get("sfp"))
# F5: assembly volume vs sum of block volumes
a = core.getFirstAssembly(Flags.FUEL)
print("F5 ref: a.getVolume", a.getVolume(), "sum blocks", sum(b.getVolume() for b in a))
areas = sorted(set(round(b.getArea(),6) for b in a)); print("   block areas", areas[:5])
# F11a: add at occupied location
allA = core.getAssemblies()
a1, a2 = allA[5], allA[6]
n0 = len(core)
new = copy.deepcopy(a1); new.makeUnique()
try:
    core.add(new, a2.spatialLocator)
except Exception as e:
    print("F11a add at occupied:", type(e).__name__, "| len(core) before/after", n0, len(core), "| new in core children:", new in core, "| new.parent", new.parent is core,
          "| in byLocator values:", any(v is new for v in core.childrenByLocator.values()))
    # cleanup
    if new in core:
        core.remove(new)
# F11b: remove A, add B at L, re-add A w/o locator
A = allA[7]; L = A.spatialLocator; idx = tuple(L.indices)
core.removeAssembly(A, discharge=False)
Bn = copy.deepcopy(a1); Bn.makeUnique()
core.add(Bn, core.spatialGrid[idx])
print("A.spatialLocator after removal:", A.spatialLocator, A.spatialLocator.grid)
try:
    core.add(A)
    atL = [x for x in core if tuple(x.spatialLocator.indices)==idx]
    print("F11b re-add succeeded; assemblies at", idx, ":", [x.name for x in atL], "| byLocator holds", core.childrenByLocator[core.spatialGrid[idx]].name)
except Exception as e:
    print("F11b re-add rejected:", type(e).__name__, str(e)[:100])
