import os, copy, tempfile
from armi import configure
import armi
if not armi.isConfigured(): configure()
from armi.reactor.tests import test_reactors
from armi.tests import TEST_ROOT
from armi.reactor.flags import Flags
from armi.bookkeeping.db import Database
from armi.physics.fuelCycle import fuelHandlers
import time
d = tempfile.mkdtemp(); os.chdir(d)
o, r = test_reactors.loadTestReactor(TEST_ROOT, customSettings={"reloadDBName": "reloadingDB.h5"})
core = r.core
fh = fuelHandlers.FuelHandler(o)
order0 = [a.name for a in core]
out = core.getAssemblies(Flags.FUEL)[3]
inc = copy.deepcopy(out); inc.makeUnique()
fh.dischargeSwap(inc, out)
order1 = [a.name for a in core]
print("incoming appended at end:", order1[-1]==inc.name, "pos of outgoing was", order0.index(out.name))
t=time.time()
db = Database("t.h5","w"); db.open(); db.writeInputsToDB(o.cs); db.writeToDB(r); db.close(True)
print("write", time.time()-t)
t=time.time()
with Database("t.h5","r") as db2:
    r2 = db2.load(0,0, allowMissing=True)
print("load", time.time()-t)
order2 = [a.name for a in r2.core]
print("child order equal after load:", order1==order2, "| same set:", sorted(order1)==sorted(order2))
print("sfp:", [a.name for a in r.excore['sfp']], [a.name for a in r2.excore['sfp']])
