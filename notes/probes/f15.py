from armi import configure
import armi
if not armi.isConfigured(): configure()
from armi import settings
cs = settings.Settings()
print("default nTasks:", cs["nTasks"])
txt = "settings:\n  numProcessors: 7\n"
cs2 = settings.Settings()
try:
    cs2.loadFromString(txt, handleInvalids=False)
    print("after reading old name numProcessors=7 -> nTasks =", cs2["nTasks"])
except Exception as e:
    print("ERR", type(e).__name__, e)
