import itertools
from armi import configure
import armi
if not armi.isConfigured(): configure()
from armi import settings, utils
bad=[]
def mkcs(steps):
    cs = settings.Settings()
    cycles=[{"step days":[1.0]*s if s>0 else [], "power fractions":[1.0]*s, "availability factor":1.0} for s in steps]
    return cs
# easier: monkeypatch getBurnSteps via a fake cs dict-like
class FakeCS(dict): pass
import armi.utils as U
orig = U.getBurnSteps
for L in range(1,5):
    for steps in itertools.product(range(0,4), repeat=L):
        U.getBurnSteps = lambda cs, steps=steps: list(steps)
        nodes=[(c,n) for c in range(L) for n in range(steps[c]+1)]
        for k,(c,n) in enumerate(nodes):
            if U.getCumulativeNodeNum(c,n,None)!=k: bad.append(("cum",steps,c,n))
            if U.getCycleNodeFromCumulativeNode(k,None)!=(c,n): bad.append(("inv",steps,k,U.getCycleNodeFromCumulativeNode(k,None),(c,n)))
            if k>0 and U.getPreviousTimeNode(c,n,None)!=nodes[k-1]: bad.append(("prev",steps,c,n))
        # steps: 1-indexed cumulative step t -> (cycle, node at start)
        stepNodes=[(c,n) for c in range(L) for n in range(steps[c])]
        for t,(c,n) in enumerate(stepNodes, start=1):
            got=U.getCycleNodeFromCumulativeStep(t,None)
            if got!=(c,n): bad.append(("step",steps,t,got,(c,n)))
U.getBurnSteps = orig
print("C15 arithmetic issues:", len(bad), bad[:6])
