import os
from armi import configure
import armi
if not armi.isConfigured(): configure()
from armi.reactor.tests import test_reactors
from armi.tests import TEST_ROOT
o, r = test_reactors.loadTestReactor(os.path.join(TEST_ROOT,'smallestTestReactor'), inputFileName='armiRunSmallest.yaml')
core = r.core
g = core.spatialGrid
p0 = g.pitch
with r.retainState():
    g.changePitch(p0*2)            # change between outer entry and inner entry
    with r.retainState():
        g.changePitch(p0*3)
    print("after inner exit pitch/p0 =", g.pitch/p0, "(expect 2)")
print("after outer exit pitch/p0 =", g.pitch/p0, "(expect 1)")
# parameter nesting for comparison
b = core[0][0]
h0 = b.p.height
with r.retainState():
    b.p.height = 2*h0
    with r.retainState():
        b.p.height = 3*h0
    print("param after inner exit:", b.p.height/h0)
print("param after outer exit:", b.p.height/h0)
