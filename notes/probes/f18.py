import random, io
from armi.utils import asciimaps
from armi.reactor import grids, geometry
rnd = random.Random(5)
def hexcells(rings):
    g = grids.HexGrid.fromPitch(1.0, numRings=0)
    out=[]
    for r in range(1,rings+1):
        for p in range(1, g.getPositionsInRing(r)+1):
            out.append(g.getIndicesFromRingAndPos(r,p))
    return out
def third(cells):
    g = grids.HexGrid.fromPitch(1.0, numRings=0, symmetry="third periodic")
    return [c for c in cells if g.isInFirstThird(g[c[0],c[1],0], includeTopEdge=False)]
res = {}
for cls, dom in [(asciimaps.AsciiMapHexFullTipsUp,"full"),(asciimaps.AsciiMapHexFullFlatsUp,"full"),(asciimaps.AsciiMapHexThirdFlatsUp,"third"),(asciimaps.AsciiMapCartesian,"cart")]:
    bad=0; rej=0; ok=0; firstbad=None
    for trial in range(300):
        rings = rnd.randint(1,6)
        if dom=="cart":
            n=rnd.randint(1,6); cells=[(i,j) for i in range(n) for j in range(rnd.randint(1,6))]
        else:
            cells = hexcells(rings)
            if dom=="third": cells = third(cells)
        # holes
        holeP = rnd.choice([0,0,0.1,0.3])
        contents = {c: rnd.choice(["A","BB","C1"]) for c in cells if rnd.random()>=holeP or c==(0,0)}
        m = cls()
        for k,v in contents.items(): m[k]=v
        try:
            m.gridContentsToAscii()
            txt = str(m)
        except Exception as e:
            rej+=1; continue
        m2 = cls(); m2.readAscii(txt)
        back = {k:v for k,v in m2.items() if v != asciimaps.PLACEHOLDER}
        if back != contents:
            bad+=1
            if firstbad is None: firstbad=(rings, holeP, len(contents), len(back), sorted(set(contents)-set(back))[:4], sorted(set(back)-set(contents))[:4])
        else: ok+=1
    print(cls.__name__, "ok",ok,"rejected",rej,"BAD",bad, firstbad)
