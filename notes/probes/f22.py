import os, tempfile
from armi import configure
import armi
if not armi.isConfigured(): configure()
from armi.reactor.tests import test_reactors
from armi.tests import TEST_ROOT
from armi.bookkeeping.db import Database
from armi.reactor import grids
from armi.reactor.flags import Flags
d=tempfile.mkdtemp(); os.chdir(d)
o, r = test_reactors.loadTestReactor(TEST_ROOT, customSettings={"reloadDBName":"x.h5"})
b = r.core.getFirstBlock(Flags.FUEL)
print("block grid:", type(b.spatialGrid).__name__)
for c in b: print("  ", c.name, type(c.spatialLocator).__name__, c.spatialLocator.indices if not isinstance(c.spatialLocator, grids.MultiIndexLocation) else len(c.spatialLocator))
duct = b.getComponent(Flags.DUCT)
duct.spatialLocator = grids.CoordinateLocation(1.5, -2.25, 0.0, b.spatialGrid)
g0 = duct.spatialLocator.getGlobalCoordinates()
sn = duct.p.serialNum
db=Database("t.h5","w"); db.open(); db.writeInputsToDB(o.cs); db.writeToDB(r); db.close(True)
with Database("t.h5","r") as d2:
    r2=d2.load(0,0,cs=o.cs,allowMissing=True)
duct2=[c for c in r2.core.getChildren(deep=True) if c.p.serialNum==sn][0]
print("before:", "CoordinateLocation", (1.5,-2.25,0.0), "global", g0)
print("after :", type(duct2.spatialLocator).__name__, duct2.spatialLocator.indices, "global", duct2.spatialLocator.getGlobalCoordinates())
