import random, math, inspect, traceback
from armi import configure
import armi
if not armi.isConfigured(): configure()
from armi import materials
from armi.materials import material as matmod
from armi.reactor import components
from armi.reactor.components import basicShapes, complexShapes
rnd=random.Random(3)
shapes = {
 "Circle": dict(od=1.0, id=0.4, mult=3),
 "Hexagon": dict(op=5.0, ip=4.0, mult=1),
 "Rectangle": dict(lengthOuter=3.0, lengthInner=1.0, widthOuter=2.0, widthInner=0.5, mult=2),
 "SolidRectangle": dict(lengthOuter=3.0, widthOuter=2.0, mult=2),
 "Square": dict(widthOuter=3.0, widthInner=1.0, mult=1),
 "Triangle": dict(base=2.0, height=1.5, mult=4),
 "HoledHexagon": dict(op=10.0, holeOD=0.5, nHoles=7, mult=1),
 "HexHoledCircle": dict(od=5.0, holeOP=1.0, mult=1),
 "HoledRectangle": dict(lengthOuter=3.0, widthOuter=2.0, holeOD=0.5, mult=1),
 "HoledSquare": dict(widthOuter=3.0, holeOD=0.5, mult=1),
 "Helix": dict(od=0.25, id=0.0, axialPitch=30.0, helixDiameter=1.2, mult=5),
}
mats=[]
for name in dir(materials):
    cls=getattr(materials,name)
    if inspect.isclass(cls) and issubclass(cls, matmod.Material) and cls.__module__.startswith("armi.materials") :
        mats.append(cls)
print(len(mats),"material classes")
res={}
worst=[]
for mcls in mats:
    try:
        m=mcls()
    except Exception as e:
        res[mcls.__name__]="INST-FAIL %s"%e; continue
    if isinstance(m,(matmod.Fluid,)) or mcls.__name__ in ("Custom","Void"): continue
    # find valid range of linear expansion
    rng = getattr(m,"propertyValidTemperature",{}).get("linear expansion percent") or getattr(m,"propertyValidTemperature",{}).get("linear expansion")
    lo,hi = (300.0,800.0)
    if rng:
        (lo_,hi_),unit = rng[0] if isinstance(rng[0],tuple) and isinstance(rng[0][0],tuple) else (rng[0],"K")
        lo,hi = lo_,hi_
        if str(rng[-1]).upper().startswith("K") or (isinstance(rng[0],tuple) and isinstance(rng[0][0],tuple) and rng[0][1]=="K"):
            lo,hi = lo-273.15, hi-273.15
    lo=max(lo,21.0); 
    if hi<=lo: hi=lo+100
    for sname,dims in shapes.items():
        cls=getattr(components,sname)
        try:
            T0=lo+0.1*(hi-lo)
            c=cls("c", mcls.__name__, T0, T0, **dims)
            if not c.getNumberDensities(): continue
            a0=c.getArea(); n0=dict(c.getNumberDensities())
            Ts=[lo+rnd.random()*(hi-lo) for _ in range(4)]
            for T in Ts: c.setTemperature(T)
            a1=c.getArea(); n1=c.getNumberDensities()
            k=max(n0,key=n0.get)
            rel=(a1*n1[k])/(a0*n0[k])-1
            f=c.getThermalExpansionFactor()
            relA = a1/a0/(f*f)-1
            # path independence: direct
            c2=cls("c", mcls.__name__, T0, T0, **dims); c2.setTemperature(Ts[-1])
            relP = c2.getNumberDensities()[k]/n1[k]-1
            if max(abs(rel),abs(relA),abs(relP))>1e-9: worst.append((mcls.__name__,sname,"%.2e %.2e %.2e"%(rel,relA,relP)))
        except Exception as e:
            worst.append((mcls.__name__,sname,"EXC "+type(e).__name__+" "+str(e)[:60]))
print("inst failures:", res)
print("n issues", len(worst))
import collections
print(collections.Counter((w[1]) for w in worst).most_common(12))
print(collections.Counter((w[0]) for w in worst).most_common(12))
for w in worst[:14]: print(w)
