import numpy as np, h5py, os, tempfile
from armi.bookkeeping.db import database as dbm
from armi.bookkeeping.db.jaggedArray import JaggedArray
from armi.bookkeeping.db.layout import replaceNonesWithNonsense, replaceNonsenseWithNones

def roundtrip(temp, name="p"):
    """mimic _writeParams/_readParams for non-serializer params through a real h5 file"""
    if any(isinstance(x,(np.ndarray,list)) for x in temp):
        jagged = len(set([dbm.Database._getArrayShape(x) for x in temp])) != 1
    else:
        jagged = False
    data = JaggedArray(temp, name) if jagged else np.array(temp)
    attrs = {}
    if isinstance(data, JaggedArray):
        data, sa = dbm.packSpecialData(data, name); attrs.update(sa)
    else:
        if data.dtype.kind == "U": data = data.astype("S")
        if data.dtype.kind == "O":
            data, sa = dbm.packSpecialData(data, name); attrs.update(sa)
    if data is None: return "ALLNONE-SKIPPED"
    d = tempfile.mkdtemp(); fn = os.path.join(d,"t.h5")
    with h5py.File(fn,"w") as f:
        g = f.create_group("g")
        ds = g.create_dataset(name, data=data, compression="gzip")
        dbm.Database._writeAttrs(ds, g, attrs)
    with h5py.File(fn,"r") as f:
        ds = f["g"][name]; data2 = ds[:]; attrs2 = dbm.Database._resolveAttrs(ds.attrs, f["g"])
        if data2.dtype.type is np.bytes_: data2 = np.char.decode(data2)
        if attrs2.get("specialFormatting", False):
            data2 = dbm.unpackSpecialData(data2, attrs2, name)
        out = data2.tolist()
    os.remove(fn); os.rmdir(d)
    return out

cases = {
 "uint8+None": [np.uint8(5), None, np.uint8(2)],
 "uint16 arrays+None": [np.array([1,2],dtype=np.uint16), None, np.array([2,2],dtype=np.uint16)],
 "int+None": [3, None, 5],
 "np.int64 scalar in ragged": [np.int64(3), [1,2], [4,5,6]],
 "np.float64 scalar in ragged": [np.float64(3.5), [1.0,2.0]],
 "str/int mix": [1, "a", 2],
 "int/float mix": [1, 2.5],
 "bool+None": [True, None],
 "bool": [True, False],
 "dict w/ NaN": [{"a":1.0,"b":float("nan")},{"a":2.0}],
 "dict+None": [{"a":1.0}, None],
 "ragged 2 level": [[[1,2],[3]], [[4]]],
 "empty among ragged": [[1,2],[],[3]],
 "float w/ NaN": [1.0, float("nan"), None],
 "tuple ragged": [(1,2),(3,4,5)],
 "str+None": ["a", None, "bcd"],
 "empty str": ["", "x"],
 "2d arrays": [np.zeros((2,3)), np.ones((2,3))],
 "2d arrays+None": [np.zeros((2,3)), None],
 "2d ragged": [np.zeros((2,3)), np.ones((3,2))],
 "int min+2 sentinel": [np.iinfo(np.int64).min+2, None, 4],
}
for k,v in cases.items():
    try: print(k, "->", roundtrip(list(v)))
    except Exception as e: print(k, "-> REJECT", type(e).__name__, str(e)[:80].replace("\n"," "))
