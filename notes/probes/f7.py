import os, copy
from armi import configure
import armi
if not armi.isConfigured(): configure()
from armi.nuclearDataIO.cccc import isotxs
from armi.nuclearDataIO import xsLibraries
fx = "/repo/armi/nuclearDataIO/tests/fixtures"
AA = isotxs.readBinary(os.path.join(fx,"ISOAA"))
AB = isotxs.readBinary(os.path.join(fx,"ISOAB"))
print("AA", len(AA), AA.nuclideLabels[:3], "AB", len(AB), AB.nuclideLabels[:3])
# Build a conflicting 'other': AB plus one nuclide relabelled to collide with AA's *last* label processed late
other = isotxs.readBinary(os.path.join(fx,"ISOAB"))
# make other contain a nuclide with label equal to an AA label (same kind of data -> conflict), placed LAST
AA2 = isotxs.readBinary(os.path.join(fx,"ISOAA"))
lab = AA2.nuclideLabels[0]
other[lab] = AA2[lab]   # appended at the end of other's ordered labels
target = isotxs.readBinary(os.path.join(fx,"ISOAA"))
before = list(target.nuclideLabels)
try:
    target.merge(other)
    print("merge succeeded?!")
except Exception as e:
    after = list(target.nuclideLabels)
    print("F7 merge rejected:", type(e).__name__, "| target labels before/after:", len(before), len(after), "| unchanged:", before==after)
