import math, itertools
from armi.reactor import grids, geometry
from armi.utils import hexagon
import numpy as np
bad=[]
for cu in (False, True):
    g = grids.HexGrid.fromPitch(1.3, numRings=0, cornersUp=cu, symmetry="third periodic")
    N=25
    seen={}
    for i in range(-N,N+1):
        for j in range(-N,N+1):
            ring,pos = g.indicesToRingPos(i,j)
            if ring> N: continue
            if g.getIndicesFromRingAndPos(ring,pos)!=(i,j): bad.append(("inv",i,j))
            d = max(abs(i),abs(j),abs(i+j))+1
            if d!=ring: bad.append(("ringdist",i,j,ring,d))
            if (ring,pos) in seen: bad.append(("dup",i,j))
            seen[(ring,pos)]=(i,j)
            if not (1<=pos<=hexagon.numPositionsInRing(ring)): bad.append(("posrange",i,j,ring,pos))
            # neighbours
            c = g.getCoordinates((i,j,0))[:2]
            prevang=None
            angs=[]
            for (a,b,_k) in g.getNeighboringCellIndices(i,j,0):
                cc = g.getCoordinates((a,b,0))[:2]
                dd = cc-c
                if abs(np.hypot(*dd)-1.3)>1e-9: bad.append(("nbdist",i,j,a,b))
                angs.append(math.atan2(dd[1],dd[0]))
            for k in range(6):
                da = (angs[(k+1)%6]-angs[k])%(2*math.pi)
                if abs(da-math.pi/3)>1e-9: bad.append(("ccw",i,j,k))
            # rotation
            loc = g[i,j,0]
            for k in range(-7,8):
                r = g.rotateIndex(loc,k)
                cr = g.getCoordinates((r.i,r.j,0))[:2]
                th = k*math.pi/3
                ex = np.array([c[0]*math.cos(th)-c[1]*math.sin(th), c[0]*math.sin(th)+c[1]*math.cos(th)])
                if np.abs(cr-ex).max()>1e-8: bad.append(("rot",cu,i,j,k)); break
            # third symmetry
            eq = g.getSymmetricEquivalents((i,j,0))
            orbit=[(i,j)]+[tuple(e) for e in eq]
            inDom=[o for o in orbit if g.isInFirstThird(g[o[0],o[1],0])]
            line = g.overlapsWhichSymmetryLine((i,j))
            if (i,j)!=(0,0):
                for m,e in enumerate(eq,1):
                    ce = g.getCoordinates((e[0],e[1],0))[:2]; th=m*2*math.pi/3
                    ex = np.array([c[0]*math.cos(th)-c[1]*math.sin(th), c[0]*math.sin(th)+c[1]*math.cos(th)])
                    if np.abs(ce-ex).max()>1e-8: bad.append(("sym120",cu,i,j,m)); break
                onLine = any(g.overlapsWhichSymmetryLine(o) in (grids.BOUNDARY_0_DEGREES, grids.BOUNDARY_120_DEGREES) for o in orbit)
                if not onLine and len(inDom)!=1: bad.append(("orbit",cu,i,j,len(inDom)))
                if onLine:
                    inDomTop=[o for o in orbit if g.isInFirstThird(g[o[0],o[1],0], includeTopEdge=True)]
                    if len(inDom)!=1 or len(inDomTop)!=2: bad.append(("orbitline",cu,i,j,len(inDom),len(inDomTop)))
print("hex issues:", len(bad), bad[:8])
# numRings
bad2=[]
def least(n):
    r=0
    while (hexagon.totalPositionsUpToRing(r) if r>0 else 0) < n: r+=1
    return r
for n in range(0,20000):
    if hexagon.numRingsToHoldNumCells(n)!=least(n): bad2.append(n)
for r in list(range(1,3000))+[10**5,10**6,3*10**6, 10**7, 4*10**7]:
    t=hexagon.totalPositionsUpToRing(r)
    for n in (t-1,t,t+1):
        exp = r if n<=t else r+1
        if hexagon.numRingsToHoldNumCells(n)!=exp: bad2.append(n)
print("numRings issues:", len(bad2), bad2[:6])
