import os
from armi import configure
import armi
if not armi.isConfigured(): configure()
from armi.reactor.tests import test_reactors
from armi.tests import TEST_ROOT
from armi.reactor.flags import Flags
from armi.reactor.converters.axialExpansionChanger import AxialExpansionChanger
from armi.reactor.converters.axialExpansionChanger.assemblyAxialLinkage import AssemblyAxialLinkage
from armi.reactor.converters.axialExpansionChanger.expansionData import iterSolidComponents
o, r = test_reactors.loadTestReactor(os.path.join(TEST_ROOT,"detailedAxialExpansion"))
a = r.core.getFirstAssembly(Flags.FUEL)
print(a, [ (b.getType(), round(b.getHeight(),3)) for b in a])
chg = AxialExpansionChanger(detailedAxialExpansion=True)
chg.setAssembly(a)
ed, lk = chg.expansionData, chg.linked
H0 = a.getTotalHeight()
mass0 = {}
for b in a:
    for c in iterSolidComponents(b):
        mass0[c] = c.getMass()
comps=[]; pcts=[]
import random; rnd=random.Random(1)
for b in a[:-1]:
    for c in iterSolidComponents(b):
        comps.append(c); pcts.append(1.0+rnd.choice([0.0,0.01,0.02,0.035]))
chg.performPrescribedAxialExpansion(a, comps, pcts, setFuel=True)
print("height", H0, a.getTotalHeight())
for ib,b in enumerate(a[:-1]):
    for c in iterSolidComponents(b):
        tgt = chg.expansionData.isTargetComponent(c)
        low = chg.linked.linkedComponents[c].lower
        lowIsTgt = (low is not None and chg.expansionData.isTargetComponent(low))
        rel = c.getMass()/mass0[c]-1
        if tgt: print(ib, b.getType(), c.name, "target; lower link:", None if low is None else low.name, "lowerIsTarget", lowIsTgt, "dMass/M = %.2e"%rel)
