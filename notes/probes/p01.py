import random, copy, pickle
from armi import configure
import armi
if not armi.isConfigured(): configure()
from armi.reactor import composites
from armi.reactor.flags import Flags
rnd=random.Random(4)
issues=[]
FL=[Flags.FUEL, Flags.CLAD, Flags.DUCT, Flags.FUEL|Flags.INNER, Flags.CONTROL, Flags(0)]
def naive_desc(n):
    out=list(n)
    for c in n: out+=naive_desc(c)
    return out
def naive_gen(n,k):
    if k==1: return list(n)
    out=[]
    for c in n: out+=naive_gen(c,k-1)
    return out
for trial in range(400):
    nodes=[composites.Composite(f"n{i}") for i in range(rnd.randint(2,9))]
    for n in nodes: n.p.flags=rnd.choice(FL)
    def roots(): return [n for n in nodes if n.parent is None]
    def anc(n):
        out=[]
        while n is not None: out.append(n); n=n.parent
        return out
    for step in range(rnd.randint(1,30)):
        op=rnd.choice(["add","add","insert","remove","removeAll","setChildren","sort?"])
        try:
            if op in("add","insert"):
                c=rnd.choice(nodes); p=rnd.choice(nodes)
                if c.parent is not None or c in anc(p): continue   # valid-use precondition
                if op=="add": p.add(c)
                else: p.insert(rnd.randint(-3,len(p)+2), c)
            elif op=="remove":
                p=rnd.choice(nodes)
                if len(p)==0: continue
                p.remove(rnd.choice(list(p)))
            elif op=="removeAll":
                rnd.choice(nodes).removeAll()
            elif op=="setChildren":
                p=rnd.choice(nodes)
                cand=[n for n in nodes if (n.parent is None or n.parent is p) and n not in anc(p)]
                ks=rnd.sample(cand, min(len(cand), rnd.randint(0,3)))
                p.setChildren(ks)
        except Exception as e:
            issues.append(("EXC",op,type(e).__name__,str(e)[:60]))
        # invariants
        for n in nodes:
            ids=[id(c) for c in n]
            if len(set(ids))!=len(ids): issues.append(("dupchild",op))
            for c in n:
                if c.parent is not n: issues.append(("parent-mismatch",op))
            if n.parent is not None and n not in n.parent: issues.append(("not-listed",op))
        # traversal
        rt=rnd.choice(nodes)
        d=rt.getChildren(deep=True)
        if [id(x) for x in d]!=[id(x) for x in naive_desc(rt)]: issues.append(("deep",op))
        k=rnd.randint(1,4)
        if [id(x) for x in rt.getChildren(generationNum=k)]!=[id(x) for x in naive_gen(rt,k)]: issues.append(("gen",op,k))
        f=rnd.choice(FL[:-1]); ex=rnd.random()<0.5
        got=rt.getChildrenWithFlags(f, exactMatch=ex)
        exp=[c for c in rt if ((c.p.flags==f) if ex else (bool(c.p.flags) and (c.p.flags & f)==f))]
        if [id(x) for x in got]!=[id(x) for x in exp]: issues.append(("flags",op))
        pred=lambda o: o.name[-1] in "02468"
        if [id(x) for x in rt.getChildren(deep=True,predicate=pred)]!=[id(x) for x in naive_desc(rt) if pred(x)]: issues.append(("pred",op))
        a=rt.getAncestor(lambda o: o.name[-1] in "135")
        ea=next((x for x in anc(rt) if x.name[-1] in "135"),None)
        if a is not ea: issues.append(("ancestor",op))
    # copy / pickle
    rt=rnd.choice(nodes)
    for how in ("deepcopy","pickle"):
        cp=copy.deepcopy(rt) if how=="deepcopy" else pickle.loads(pickle.dumps(rt))
        def shape(n): return (n.name,[shape(c) for c in n])
        if shape(cp)!=shape(rt): issues.append(("copyshape",how))
        orig={id(x) for x in [rt]+naive_desc(rt)}
        cps=[cp]+naive_desc(cp)
        if orig & {id(x) for x in cps}: issues.append(("shared",how))
        for x in cps:
            for c in x:
                if c.parent is not x: issues.append(("copy-relink",how))
        if how=="pickle" and cp.parent is not None: issues.append(("pickle-parent",))
        if how=="deepcopy" and rt.parent is not None and cp.parent is not None:
            # deepcopy of a non-root copies the whole tree upward through parent
            issues.append(("deepcopy-copies-parent", len(naive_desc(cp.parent))))
import collections
print("C01 issues:", len(issues), collections.Counter(i[0] for i in issues).most_common(8))
for i in issues[:6]: print(i)
