import os, random, math
from armi import configure
import armi
if not armi.isConfigured(): configure()
from armi.reactor.tests import test_reactors
from armi.tests import TEST_ROOT
from armi.reactor.flags import Flags
from armi.utils import densityTools, units
from armi.nucDirectory import nucDir
o, r = test_reactors.loadTestReactor(TEST_ROOT)
core=r.core
rnd=random.Random(6)
issues=[]
def close(a,b,tol=1e-9): return abs(a-b)<=tol*max(1.0,abs(a),abs(b))
# additivity
blocks=core.getBlocks()
for b in rnd.sample(blocks,40):
    nucs=sorted(b.getNuclides())
    if not close(b.getMass(), sum(c.getMass() for c in b)): issues.append(("mass-add-block",b.name))
    sf=b.getSymmetryFactor()
    if not close(b.getVolume(), sum(c.getVolume() for c in b)/sf): issues.append(("vol-add-block",b.name,sf))
    for n in rnd.sample(nucs,min(4,len(nucs))):
        if not close(b.getMass(n), sum(c.getMass(n) for c in b)): issues.append(("massnuc-add",b.name,n))
        # atoms: N_b V_b == sum N_c V_c / sf
        lhs=b.getNumberDensity(n)*b.getVolume()
        rhs=sum(c.getNumberDensity(n)*c.getVolume() for c in b)/sf
        if not close(lhs,rhs): issues.append(("atoms",b.name,n,lhs,rhs))
        # mass = density*volume
    rho=b.density()
    if not close(b.getMass(), rho*b.getVolume(),1e-8): issues.append(("rhoV",b.name,b.getMass(),rho*b.getVolume()))
    mf=b.getMassFracs()
    if mf and not close(sum(mf.values()),1.0): issues.append(("mfsum",b.name))
for a in rnd.sample(core.getAssemblies(),15):
    if not close(a.getMass(), sum(b.getMass() for b in a)): issues.append(("mass-add-assem",a.name))
    if not close(a.getVolume(), sum(b.getVolume() for b in a),1e-9): issues.append(("vol-add-assem",a.name,a.getVolume(),sum(b.getVolume() for b in a)))
    n="U235"
    lhs=a.getNumberDensity(n)*a.getVolume(); rhs=sum(b.getNumberDensity(n)*b.getVolume() for b in a)
    if not close(lhs,rhs,1e-8): issues.append(("atoms-assem",a.name,lhs,rhs, a.getSymmetryFactor()))
if not close(core.getMass(), sum(a.getMass() for a in core)): issues.append(("mass-add-core",))
n="U238"; lhs=core.getNumberDensity(n)*core.getVolume(); rhs=sum(a.getNumberDensity(n)*a.getVolume() for a in core)
if not close(lhs,rhs,1e-8): issues.append(("atoms-core",lhs,rhs))
print("additivity issues",len(issues)); 
for i in issues[:8]: print(i)
# read-back
issues2=[]
for b in rnd.sample(core.getBlocks(Flags.FUEL),25):
    nucs=[n for n in sorted(b.getNuclides()) if b.getNumberDensity(n)>0]
    before={n:b.getNumberDensity(n) for n in b.getNuclides()}
    n=rnd.choice(nucs); v=before[n]*rnd.choice([0.5,2.0,1.37])
    b.setNumberDensity(n,v)
    after={m:b.getNumberDensity(m) for m in b.getNuclides()}
    if not close(after[n],v,1e-9): issues2.append(("setND-readback",b.name,n,v,after[n]))
    for m in before:
        if m!=n and not close(before[m],after[m],1e-12): issues2.append(("setND-frame",b.name,n,m)); break
    # addMass / setMass
    m0=b.getMass(n); b.addMass(n, 5.0)
    if not close(b.getMass(n), m0+5.0,1e-8): issues2.append(("addMass",b.name,n,m0,b.getMass(n)))
    b.setMass(n, 123.0)
    if not close(b.getMass(n),123.0,1e-8): issues2.append(("setMass",b.name,n,b.getMass(n)))
    # scale
    bf={m:b.getNumberDensity(m) for m in b.getNuclides()}
    try:
        b.changeNDensByFactor(1.25)
    except AttributeError as e:
        issues2.append(('scale-EXC',b.name,str(e)[:60]))
    for m,vv in bf.items():
        if not close(b.getNumberDensity(m),1.25*vv,1e-9): issues2.append(("scale",b.name,m)); break
    # mass fracs
    rho0=b.density(); mf0=b.getMassFracs()
    tgt=rnd.choice([k for k,v in mf0.items() if v>1e-4]); newf=min(0.9,mf0[tgt]*1.5)
    b.setMassFracs({tgt:newf})
    mf1=b.getMassFracs()
    if not close(mf1[tgt],newf,1e-9): issues2.append(("mf-readback",b.name,tgt,newf,mf1[tgt]))
    if not close(b.density(),rho0,1e-9): issues2.append(("mf-rho",b.name,rho0,b.density()))
    others=[k for k in mf0 if k!=tgt and mf0[k]>1e-6]
    if len(others)>=2:
        k1,k2=others[:2]
        if not close(mf1[k1]/mf1[k2], mf0[k1]/mf0[k2],1e-8): issues2.append(("mf-prop",b.name))
# at assembly level
for a in rnd.sample(core.getAssemblies(Flags.FUEL),8):
    n="U235"; v=a.getNumberDensity(n)*1.7
    before={m:a.getNumberDensity(m) for m in a.getNuclides()}
    a.setNumberDensity(n,v)
    if not close(a.getNumberDensity(n),v,1e-9): issues2.append(("assem-setND",a.name,v,a.getNumberDensity(n)))
    for m in before:
        if m!=n and not close(before[m],a.getNumberDensity(m),1e-12): issues2.append(("assem-frame",a.name,m)); break
print("read-back issues",len(issues2))
for i in issues2[:10]: print(i)
