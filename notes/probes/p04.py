import os, random, tempfile, collections
import numpy as np
from armi import configure
import armi
if not armi.isConfigured(): configure()
from armi.reactor.tests import test_reactors
from armi.tests import TEST_ROOT
from armi.bookkeeping.db import Database
from armi.reactor import grids
from armi.reactor.components import Component
from armi.reactor.components.component import _DimensionLink
from armi.reactor.parameters import parameterDefinitions as pd
d=tempfile.mkdtemp(); os.chdir(d)
o, r = test_reactors.loadTestReactor(TEST_ROOT, customSettings={"reloadDBName":"x.h5"})
rnd=random.Random(5)
# random param assignment on saveToDB params
objs=[r,r.core]+r.core.getChildren(deep=True)
nset=0
for obj in rnd.sample(objs,400):
    pdefs=[p for p in obj.p.paramDefs.toWriteToDB() if p.name not in ("serialNum","flags","assemNum","maxAssemNum") and not (hasattr(obj,"DIMENSION_NAMES") and p.name in obj.DIMENSION_NAMES)]
    for p in rnd.sample(pdefs, min(3,len(pdefs))):
        cur=getattr(obj.p,p.fieldName,None)
        try:
            if isinstance(cur,bool): continue
            if isinstance(cur,float): obj.p[p.name]=cur+rnd.random(); nset+=1
            elif isinstance(cur,int): obj.p[p.name]=cur+rnd.randint(1,5); nset+=1
            elif isinstance(cur,str) and cur: pass
            elif cur is None and p.default is None and p.name in ("mgFlux","detailedNDens","pinMgFluxes") : 
                obj.p[p.name]=np.array([rnd.random() for _ in range(rnd.randint(2,5))]); nset+=1
        except Exception: pass
print("assigned", nset)
def locrep(l):
    if isinstance(l, grids.MultiIndexLocation): return ("M",tuple(tuple(int(v) for v in x.indices) for x in l))
    if isinstance(l, grids.CoordinateLocation): return ("C",tuple(float(v) for v in l.indices))
    if isinstance(l, grids.IndexLocation): return ("I",tuple(int(v) for v in l.indices))
    return ("N",)
def canon(v):
    if isinstance(v,_DimensionLink): return ("link",v[0].name,v[1])
    if isinstance(v,np.ndarray): return ("arr",v.dtype.kind,v.shape,tuple(np.asarray(v).ravel().tolist()))
    if isinstance(v,(list,tuple)): return ("seq",tuple(canon(x) for x in v))
    if isinstance(v,dict): return ("dict",tuple(sorted((k,canon(x)) for k,x in v.items())))
    if isinstance(v,(np.floating,float)): return ("f",float(v))
    if isinstance(v,(np.integer,int)) and not isinstance(v,bool): return ("i",int(v))
    return (type(v).__name__, str(v))
def dump(root):
    out={}
    for c in [root]+root.getChildren(deep=True):
        rec={"type":type(c).__name__,"name":c.name,"kids":[k.p.serialNum for k in c],"loc":locrep(c.spatialLocator),
             "grid": None if c.spatialGrid is None else (type(c.spatialGrid).__name__, str(c.spatialGrid.reduce()))}
        if isinstance(c,Component):
            rec["mat"]=type(c.material).__name__; rec["T"]=(c.inputTemperatureInC,c.temperatureInC)
            rec["nd"]=tuple(sorted(c.getNumberDensities().items())); rec["vol"]=c.getVolume()
        ps={}
        for p in c.p.paramDefs.toWriteToDB():
            if p.assigned==pd.NEVER: continue
            v=getattr(c.p,p.fieldName,"<unset>")
            ps[p.name]=canon(v)
        rec["p"]=ps
        out[c.p.serialNum]=rec
    return out
d0=dump(r)
db=Database("t.h5","w"); db.open(); db.writeInputsToDB(o.cs); db.writeToDB(r); db.close(True)
with Database("t.h5","r") as d2:
    r2=d2.load(0,0,allowMissing=True)
d1=dump(r2)
print("objects", len(d0), len(d1), "same serial set", set(d0)==set(d1))
cnt=collections.Counter(); ex={}
def feq(a,b):
    if a==b: return True
    if isinstance(a,tuple) and isinstance(b,tuple) and len(a)==len(b): return all(feq(x,y) for x,y in zip(a,b))
    if isinstance(a,float) and isinstance(b,float): return (a!=a and b!=b) or abs(a-b)<=1e-12*max(1,abs(a))
    return False
for sn,rec in d0.items():
    r1=d1.get(sn)
    if r1 is None: cnt["missing"]+=1; continue
    for k in ("type","name","kids","loc","grid","mat","T","nd","vol"):
        if k in rec and not feq(rec[k], r1.get(k)): cnt[k]+=1; ex.setdefault(k,(rec["type"],rec["name"],str(rec[k])[:80],str(r1.get(k))[:80]))
    for pn,v in rec["p"].items():
        v1=r1["p"].get(pn,"<absent>")
        if not feq(v,v1):
            cnt["p:"+pn]+=1; ex.setdefault("p:"+pn,(rec["type"],rec["name"],str(v)[:70],str(v1)[:70]))
print(cnt.most_common(25))
for k,v in list(ex.items())[:25]: print(k,v)
