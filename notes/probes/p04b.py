import os, tempfile, collections, copy
import numpy as np
from armi import configure
import armi
if not armi.isConfigured(): configure()
from armi.reactor.tests import test_reactors
from armi.tests import TEST_ROOT
from armi.bookkeeping.db import Database
from armi.reactor import grids
from armi.reactor.components import Component
from armi.reactor.components.component import _DimensionLink
exec(open('/tmp/probe/p04.py').read().split("d0=dump(r)")[0].split("def locrep")[1].join(["def locrep",""]) if False else "")
# minimal canonical dump (structure, locs, grids, comps) reused across fixtures
def locrep(l):
    if isinstance(l, grids.MultiIndexLocation): return ("M",tuple(tuple(int(v) for v in x.indices) for x in l))
    if isinstance(l, grids.CoordinateLocation): return ("C",tuple(round(float(v),12) for v in l.indices))
    if isinstance(l, grids.IndexLocation): return ("I",tuple(int(v) for v in l.indices))
    return ("N",)
def gridrep(g):
    if g is None: return None
    p=g.reduce()
    def t(x):
        if x is None: return None
        if isinstance(x,(list,tuple,np.ndarray)): return tuple(t(y) for y in x)
        if isinstance(x,(float,np.floating,int,np.integer)): return round(float(x),12)
        return str(x)
    return (type(g).__name__, t(p.unitSteps), t(p.bounds), t(p.unitStepLimits), t(p.offset), str(p.geomType), str(p.symmetry))
def dump(root):
    out={}
    for c in [root]+root.getChildren(deep=True):
        rec={"type":type(c).__name__,"name":c.name,"kids":tuple(sorted(k.p.serialNum for k in c)),"loc":locrep(c.spatialLocator),"grid":gridrep(c.spatialGrid)}
        if isinstance(c,Component):
            rec["mat"]=type(c.material).__name__; rec["T"]=(c.inputTemperatureInC,c.temperatureInC)
            rec["nd"]=tuple(sorted((k,round(v,14)) for k,v in c.getNumberDensities().items())); 
            rec["dims"]=tuple((d, ("link",c.p[d][0].name,c.p[d][1]) if isinstance(c.p[d],_DimensionLink) else c.p[d]) for d in c.DIMENSION_NAMES)
            try: rec["vol"]=round(c.getVolume(),9)
            except Exception as e: rec["vol"]="EXC"
        out[c.p.serialNum]=rec
    return out
cases=[("ref hex third",TEST_ROOT,"armiRun.yaml"),("smallest",os.path.join(TEST_ROOT,"smallestTestReactor"),"armiRunSmallest.yaml"),
       ("detailedAxialExpansion",os.path.join(TEST_ROOT,"detailedAxialExpansion"),"armiRun.yaml"),
       ("c5g7",os.path.join(TEST_ROOT,"c5g7"),"c5g7-settings.yaml"),("godiva",os.path.join(TEST_ROOT,"godiva"),"godiva.armi.unittest.yaml"),
       ("anl-afci-177",os.path.join(TEST_ROOT,"anl-afci-177"),"anl-afci-177.yaml"),("tutorial",os.path.join(TEST_ROOT,"tutorials"),"anl-afci-177.yaml")]
for name,path,inp in cases:
    if not os.path.exists(os.path.join(path,inp)):
        print(name,"missing input", os.listdir(path)[:6]); continue
    d=tempfile.mkdtemp(); os.chdir(d)
    try:
        o,r=test_reactors.loadTestReactor(path,inputFileName=inp,customSettings={"reloadDBName":"x.h5"})
    except Exception as e:
        print(name,"LOAD-EXC",type(e).__name__,str(e)[:100]); continue
    d0=dump(r)
    try:
        db=Database("t.h5","w"); db.open(); db.writeInputsToDB(o.cs); db.writeToDB(r); db.close(True)
        with Database("t.h5","r") as d2: r2=d2.load(0,0,cs=o.cs,allowMissing=True)
    except Exception as e:
        print(name,"DB-EXC",type(e).__name__,str(e)[:120]); continue
    d1=dump(r2)
    cnt=collections.Counter(); ex={}
    if set(d0)!=set(d1): cnt["serialset"]+=1
    for sn,rec in d0.items():
        r1=d1.get(sn)
        if not r1: continue
        for k,v in rec.items():
            if v!=r1.get(k): cnt[k]+=1; ex.setdefault(k,(rec["type"],rec["name"],str(v)[:90],str(r1.get(k))[:90]))
    print(name,"objects",len(d0),"diffs",dict(cnt))
    for k,v in ex.items(): print("    ",k,v)
