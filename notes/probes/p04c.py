import os, tempfile
from armi import configure
import armi
if not armi.isConfigured(): configure()
from armi.reactor.tests import test_reactors
from armi.tests import TEST_ROOT
from armi.bookkeeping.db import Database
d=tempfile.mkdtemp(); os.chdir(d)
o,r=test_reactors.loadTestReactor(os.path.join(TEST_ROOT,"smallestTestReactor"),inputFileName="armiRunSmallest.yaml",customSettings={"reloadDBName":"x.h5"})
db=Database("t.h5","w"); db.open(); db.writeInputsToDB(o.cs); db.writeToDB(r); db.close(True)
with Database("t.h5","r") as d2: r2=d2.load(0,0,cs=o.cs,allowMissing=True)
a=r.core.spatialGrid.reduce(); b=r2.core.spatialGrid.reduce()
for f in a._fields:
    print(f, repr(getattr(a,f))[:120], "|", repr(getattr(b,f))[:120])
