import random, collections, math
import numpy as np
exec(open('/tmp/probe/f6.py').read().split("cases = {")[0])   # reuse roundtrip()
rnd=random.Random(10)
def gen_scalar(kind):
    if kind=="int": return rnd.randint(-5,5)
    if kind=="float": return rnd.choice([0.0,1.5,-2.25,1e300,float("inf")])
    if kind=="bool": return rnd.random()<0.5
    if kind=="str": return rnd.choice(["","a","bc","long string"])
    if kind=="npint": return rnd.choice([np.int32,np.int64,np.int16])(rnd.randint(-5,5))
    if kind=="npfloat": return np.float64(rnd.random())
def gen_arr(kind,shape):
    n=int(np.prod(shape)) if shape else 1
    if kind in("int","npint"): a=np.array([rnd.randint(-9,9) for _ in range(n)],dtype=rnd.choice([np.int64,np.int32]))
    elif kind in("float","npfloat"): a=np.array([rnd.random() for _ in range(n)])
    elif kind=="bool": a=np.array([rnd.random()<0.5 for _ in range(n)])
    else: a=np.array([rnd.choice(["a","bb"]) for _ in range(n)])
    a=a.reshape(shape)
    return a if rnd.random()<0.6 else a.tolist()
def gen():
    kind=rnd.choice(["int","float","bool","str","npint","npfloat"])
    form=rnd.choice(["scalar","scalar","arr-fixed","arr-ragged","dict"])
    n=rnd.randint(1,5)
    noneP=rnd.choice([0,0,0.3,0.7,1.0])
    xs=[]
    shape=tuple(rnd.randint(1,3) for _ in range(rnd.randint(1,2)))
    for i in range(n):
        if rnd.random()<noneP: xs.append(None); continue
        if form=="scalar": xs.append(gen_scalar(kind))
        elif form=="arr-fixed": xs.append(gen_arr(kind,shape))
        elif form=="arr-ragged":
            sh=tuple(rnd.randint(0,3) for _ in range(len(shape))) if rnd.random()<0.8 else (rnd.randint(1,3),)
            if 0 in sh: xs.append([] if rnd.random()<0.5 else np.array([]))
            else: xs.append(gen_arr(kind,sh))
        else:
            xs.append({k:rnd.random() for k in rnd.sample(["a","b","c","d"],rnd.randint(0,3))})
    return kind,form,xs
def canon(v):
    if v is None: return None
    if isinstance(v,np.ndarray):
        if v.size==0: return None
        return ("arr",v.dtype.kind,tuple(v.shape),tuple(canon(x) for x in v.ravel().tolist()))
    if isinstance(v,(list,tuple)):
        if len(v)==0: return None
        try: a=np.array(v)
        except Exception: return ("seq",tuple(canon(x) for x in v))
        if a.dtype.kind=="O": return ("seq",tuple(canon(x) for x in v))
        return canon(a)
    if isinstance(v,dict): return ("dict",tuple(sorted((str(k),canon(x)) for k,x in v.items())))
    if isinstance(v,(bool,np.bool_)): return ("b",bool(v))
    if isinstance(v,(int,np.integer)): return ("i",int(v))
    if isinstance(v,(float,np.floating)): return None if v!=v else ("f",float(v))
    if isinstance(v,(str,np.str_)): return ("s",str(v))
    return ("?",repr(v))
def scalarize(c):
    # a 0-d/shape-(1,) array equals scalar? keep distinct but tolerate scalar->(1,) array (jagged path documents)
    return c
stats=collections.Counter(); issues=[]
for trial in range(4000):
    kind,form,xs=gen()
    try:
        out=roundtrip(list(xs))
    except Exception as e:
        stats[(form,"reject")]+=1; continue
    if out=="ALLNONE-SKIPPED": stats[(form,"allnone")]+=1; continue
    stats[(form,"ok")]+=1
    if len(out)!=len(xs): issues.append((kind,form,"len",xs,out)); continue
    for a,b in zip(xs,out):
        ca,cb=canon(a),canon(b)
        if ca==cb: continue
        # tolerated: scalar <-> shape (1,) array in ragged path; int<->float equality in dict values
        if ca and cb and cb[0]=="arr" and cb[2]==(1,) and ca[0] in "ifb" and cb[3][0]==ca: continue
        issues.append((kind,form,"val",repr(a)[:50],repr(b)[:50],repr(xs)[:120])); break
print(stats)
c=collections.Counter((i[0],i[1],i[2]) for i in issues); print(len(issues), c.most_common(20))
seen=set()
for i in issues:
    k=(i[0],i[1],i[2])
    if k in seen: continue
    seen.add(k); print(i)
