import random
import numpy as np
from armi import configure
import armi
if not armi.isConfigured(): configure()
from armi.utils.flags import Flag, auto
from armi.reactor.composites import FlagSerializer
rnd=random.Random(2)
issues=[]
def mk(names, explicit=None):
    attrs={n:auto() for n in names}
    if explicit: attrs.update(explicit)
    return type("F",(Flag,),attrs)
for trial in range(300):
    n=rnd.randint(1,40)
    names=[f"F{i}" for i in range(n)]
    W=mk(names)
    data=[W(rnd.getrandbits(n)) for _ in range(rnd.randint(1,6))]
    packed,attrs=FlagSerializer._packImpl(data,W)
    # reader: reordered + extended
    rnames=names[:]; rnd.shuffle(rnames)
    extra=[f"X{i}" for i in range(rnd.randint(0,10))]
    pos=rnd.randint(0,len(rnames)); rnames=rnames[:pos]+extra+rnames[pos:]
    if rnd.random()<0.3: rnames=[x for x in rnames if rnd.random()>0.2 or x.startswith("X")]  # reader missing some flags -> should be auto-added
    R=mk(rnames)
    try:
        out=FlagSerializer._unpackImpl(packed,FlagSerializer.version,attrs,R)
    except Exception as e:
        issues.append(("EXC",type(e).__name__,str(e)[:60],n,len(rnames))); continue
    for d,o in zip(data,out):
        if d._flagsOn()!=o._flagsOn(): issues.append(("meaning",sorted(d._flagsOn())[:4],sorted(o._flagsOn())[:4])); break
print("flag issues",len(issues)); print(issues[:5])
# width edge: exactly multiples of 8, and empty set
for n in (8,16,64,65):
    W=mk([f"F{i}" for i in range(n)])
    d=[W((1<<n)-1), W(0)]
    p,a=FlagSerializer._packImpl(d,W); o=FlagSerializer._unpackImpl(p,"1",a,W)
    print(n, p.shape, [x._value==y._value for x,y in zip(d,o)])
