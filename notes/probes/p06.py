import os, random, tempfile, h5py
from armi import configure
import armi
if not armi.isConfigured(): configure()
from armi.reactor.tests import test_reactors
from armi.tests import TEST_ROOT
from armi.bookkeeping.db import Database
d=tempfile.mkdtemp(); os.chdir(d)
o, r = test_reactors.loadTestReactor(os.path.join(TEST_ROOT,'smallestTestReactor'), inputFileName='armiRunSmallest.yaml', customSettings={"reloadDBName":"x.h5"})
rnd=random.Random(1)
b=r.core[0][0]
issues=[]
db=Database("a.h5","w"); db.open(); db.writeInputsToDB(o.cs)
written={}
steps=[(0,0),(0,1),(0,2),(1,0),(1,1),(2,0)]
for (c,n) in steps:
    r.p.cycle=c; r.p.timeNode=n
    b.p.power=float(100*c+n); r.core.p.keff=1.0+0.01*(10*c+n)
    db.writeToDB(r)
    written[(c,n)]=(b.p.power, r.core.p.keff)
# overwrite refusal
try:
    db.writeToDB(r); issues.append(("overwrite accepted",))
except Exception as e: print("overwrite refused:", type(e).__name__)
print("listing", list(db.genTimeSteps()))
# label snapshot
db.writeToDB(r,"EOL")
db.close(True)
with h5py.File("a.h5","r") as f: print("success attr", f.attrs["successfulCompletion"], sorted(k for k in f.keys()))
with Database("a.h5","r") as d2:
    if list(d2.genTimeSteps())!=steps+[(2,0)]: print("listing after close", list(d2.genTimeSteps()))
    for (c,n),(pw,k) in written.items():
        r2=d2.load(c,n, allowMissing=True)
        b2=r2.core[0][0]
        if (b2.p.power,r2.core.p.keff)!=(pw,k): issues.append(("isolation",c,n,b2.p.power,pw))
    # histories
    r2=d2.load(2,0, allowMissing=True)
    b2=r2.core[0][0]
    h=d2.getHistory(b2,["power","flux"])
    got={k:v for k,v in h["power"].items()}
    exp={k:v[0] for k,v in written.items()}
    if got!=exp: issues.append(("history",got,exp))
    print("flux hist (unset->default):", dict(list(h["flux"].items())[:3]))
# merge history
for start in [(1,0),(1,1),(0,0),(1,5)]:
    fn=f"m{start[0]}{start[1]}.h5"
    dbm=Database(fn,"w"); dbm.open()
    with Database("a.h5","r") as src:
        dbm.mergeHistory(src,*start)
    got=list(dbm.genTimeSteps()); dbm.close(True)
    exp=[s for s in steps if s<start]
    print("merge up to",start,"->",got, "OK" if got==exp else "UNEXPECTED (expected %s)"%exp)
print("issues",issues)
