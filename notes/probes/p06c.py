import os, random, tempfile, h5py, shutil, time
from armi import configure
import armi
if not armi.isConfigured(): configure()
from armi.reactor.tests import test_reactors
from armi.tests import TEST_ROOT
from armi import interfaces, settings, context
from armi.bookkeeping.db import Database
class Boom(Exception): pass
class Fault(interfaces.Interface):
    name="fault"
    def __init__(self,r,cs,at): super().__init__(r,cs); self.at=at
    def _m(self,ev,c=None,n=None):
        if (ev,c,n)==self.at: raise Boom(str(self.at))
    def interactBOL(self): self._m("BOL")
    def interactBOC(self,cycle=None): self._m("BOC",cycle)
    def interactEveryNode(self,cycle,node): self._m("EN",cycle,node)
    def interactEOC(self,cycle=None): self._m("EOC",cycle)
    def interactEOL(self): self._m("EOL")
def run(at, pos):
    d=tempfile.mkdtemp(); os.chdir(d)
    o, r = test_reactors.loadTestReactor(os.path.join(TEST_ROOT,'smallestTestReactor'), inputFileName='armiRunSmallest.yaml',
        customSettings={"nCycles":2,"burnSteps":2,"startCycle":0,"startNode":0,"reloadDBName":"none.h5","db":True,"detailAssemLocationsBOL":[]})
    names=[i.name for i in o.interfaces]
    for i in list(o.interfaces):
        if i.name not in ("main","database"): o.removeInterface(i)
    # insert faulting interface at position relative to database interface
    f=Fault(r,o.cs,at)
    dbi=o.getInterface("database"); idx=o.interfaces.index(dbi)
    o.interfaces.insert(idx if pos=="before" else idx+1, f)
    r.p.cycle=0; r.p.timeNode=0
    t=time.time()
    crashed=False
    try:
        with o:
            o.operate()
    except Boom: crashed=True
    title=o.cs.caseTitle
    fn=os.path.join(d,title+".h5")
    res={"crashed":crashed,"exists":os.path.exists(fn),"names":names}
    if os.path.exists(fn):
        with h5py.File(fn,"r") as h:
            res["groups"]=sorted(k for k in h.keys() if k.startswith("c"))
            res["success"]=bool(h.attrs["successfulCompletion"])
    shutil.rmtree(d, ignore_errors=True)
    res["t"]=time.time()-t
    return res
print(run(None,"after"))
for at in [("BOL",None,None),("BOC",0,None),("EN",0,0),("EN",0,1),("EN",1,2),("EOC",0,None),("EOC",1,None),("EOL",None,None)]:
    for pos in ("before","after"):
        res=run(at,pos); res.pop("names",None)
        print(at,pos,res)
