import math, random, itertools
import numpy as np
from armi import configure
import armi
if not armi.isConfigured(): configure()
from armi.reactor import grids, geometry
issues=[]
for sym, through, rotational in [("quarter core reflective through center assembly",True,False),("quarter core periodic through center assembly",True,True),("quarter core reflective",False,False),("quarter core periodic",False,True)]:
    g=grids.CartesianGrid.fromRectangle(1.5,2.5,numRings=4,symmetry=sym,isOffset=not through)
    st=g.symmetry
    for i in range(-8,9):
        for j in range(-8,9):
            c=g.getCoordinates((i,j,0))[:2]
            eq=[tuple(e) for e in g.getSymmetricEquivalents((i,j,0))]
            # expected orbit
            if rotational:
                # rotation by 90 about origin, but rectangular cells: rotate in index-space centre
                imgs=set()
                ci,cj=(i,j) if through else (i+0.5,j+0.5)
                for k in (1,2,3):
                    for _ in range(k): ci,cj=-cj,ci
                    imgs.add((ci,cj) if through else (ci-0.5,cj-0.5))
                    ci,cj=(i,j) if through else (i+0.5,j+0.5)
                imgs={(int(a),int(b)) for a,b in imgs}
            else:
                if through: imgs={(-i,j),(i,-j),(-i,-j)}
                else: imgs={(-i-1,j),(i,-j-1),(-i-1,-j-1)}
            imgs.discard((i,j))
            if set(eq)!=imgs: issues.append((sym,i,j,sorted(eq),sorted(imgs)))
            if len(set(eq))!=len(eq): issues.append((sym,"dup",i,j,eq))
            orbit=[(i,j)]+eq
            inDom=[o for o in set(orbit) if g.locatorInDomain(g[o[0],o[1],0])]
            onAxis = through and (i==0 or j==0)
            if not onAxis and len(inDom)!=1: issues.append((sym,"domain",i,j,inDom))
print("cartesian symmetry issues", len(issues)); print(issues[:6])
# ring/pos cartesian injective and pos range
iss2=[]
for through in (True,False):
    g=grids.CartesianGrid.fromRectangle(1.0,1.0,numRings=3,isOffset=not through)
    seen={}
    for i in range(-9,9):
        for j in range(-9,9):
            rp=g.getRingPos((i,j))
            if rp in seen: iss2.append(("dup",through,(i,j),seen[rp],rp))
            seen[rp]=(i,j)
            if not (1<=rp[1]<=g.getPositionsInRing(rp[0])): iss2.append(("range",through,(i,j),rp,g.getPositionsInRing(rp[0])))
    # per ring count
    import collections
    cnt=collections.Counter(rp[0] for rp in seen)
    for ring in range(1,8):
        if cnt[ring]!=g.getPositionsInRing(ring): iss2.append(("count",through,ring,cnt[ring],g.getPositionsInRing(ring)))
    for n in range(1,200):
        m=g.getMinimumRings(n); tot=lambda R: sum(g.getPositionsInRing(q) for q in range(1,R+1))
        if not (tot(m)>=n and (m==1 or tot(m-1)<n)): iss2.append(("minrings",through,n,m))
print("cartesian ringpos issues", len(iss2)); print(iss2[:8])
# reduce round trip, nested coords
iss3=[]
rnd=random.Random(1)
for trial in range(200):
    kind=rnd.choice(["hex","hexc","cart","carto","axial","thrz"])
    if kind in("hex","hexc"): g=grids.HexGrid.fromPitch(rnd.choice([1.0,2.5,16.142]),numRings=3,cornersUp=(kind=="hexc"),symmetry=rnd.choice(["full","third periodic"]))
    elif kind in("cart","carto"): g=grids.CartesianGrid.fromRectangle(1.5,2.0,numRings=3,isOffset=(kind=="carto"),symmetry="full")
    elif kind=="axial": g=grids.AxialGrid.fromNCells(5)
    else: g=grids.ThetaRZGrid(bounds=(np.array([0,1.0,2.0,3.0]),np.array([0,2.0,5.0]),np.array([0,10.0,20.0,45.0])))
    gp=g.reduce()
    g2=type(g)(*gp)
    idxs=[(1,0,0),(0,1,0),(1,1,0),(0,0,1),(2,1,2)]
    for ix in idxs:
        try: c1=g.getCoordinates(ix)
        except Exception: continue
        c2=g2.getCoordinates(ix)
        if np.abs(c1-c2).max()>0: iss3.append((kind,ix,c1,c2))
        for f in ("getCellBase","getCellTop"):
            if np.abs(getattr(g,f)(ix)-getattr(g2,f)(ix)).max()>0: iss3.append((kind,f,ix))
    if g._symmetry!=g2._symmetry or g._geomType!=g2._geomType: iss3.append((kind,"meta"))
print("reduce issues", len(iss3)); print(iss3[:4])
