import os, math, random, copy
import numpy as np
from armi import configure
import armi
if not armi.isConfigured(): configure()
from armi.reactor.tests import test_reactors
from armi.tests import TEST_ROOT
from armi.reactor.flags import Flags
from armi.reactor import grids
from armi.reactor.parameters import ParamLocation
o, r = test_reactors.loadTestReactor(TEST_ROOT)
rnd=random.Random(3)
issues=[]
def rot(xy,k):
    th=k*math.pi/3; c,s=math.cos(th),math.sin(th)
    return np.array([xy[0]*c-xy[1]*s, xy[0]*s+xy[1]*c])
fuelBlocks=r.core.getBlocks(Flags.FUEL)
for trial in range(30):
    b=copy.deepcopy(rnd.choice(fuelBlocks))
    # put a free coordinate child
    duct=b.getComponent(Flags.DUCT)
    duct.spatialLocator=grids.CoordinateLocation(rnd.uniform(-2,2), rnd.uniform(-2,2), 0.0, b.spatialGrid)
    names=b.p.paramDefs.atLocation(ParamLocation.CORNERS).names+b.p.paramDefs.atLocation(ParamLocation.EDGES).names
    vecs={}
    for n in names:
        v=[rnd.random() for _ in range(6)]
        b.p[n]= v if rnd.random()<0.5 else np.array(v)
        vecs[n]=list(v)
    b.p.displacementX, b.p.displacementY = rnd.random(), rnd.random()
    d0=np.array([b.p.displacementX,b.p.displacementY])
    pins0=b.getPinCoordinates().copy()
    free0=np.array(duct.spatialLocator.getLocalCoordinates()[:2])
    or0=b.p.orientation[2]
    ktot=0
    for step in range(rnd.randint(1,4)):
        k=rnd.randint(-7,9); ktot+=k
        b.rotate(k*math.pi/3)
    pins1=b.getPinCoordinates()
    exp=np.array([list(rot(p[:2],ktot))+[p[2]] for p in pins0])
    if np.abs(pins1-exp).max()>1e-8: issues.append(("pins",ktot, float(np.abs(pins1-exp).max())))
    free1=np.array(duct.spatialLocator.getLocalCoordinates()[:2])
    if np.abs(free1-rot(free0,ktot)).max()>1e-9: issues.append(("free",ktot))
    for n,v in vecs.items():
        got=list(b.p[n]); kk=ktot%6
        expv=[v[(m-kk)%6] for m in range(6)]
        if not np.allclose(got,expv): issues.append(("boundary",n,ktot,got[:3],expv[:3])); break
    d1=np.array([b.p.displacementX,b.p.displacementY])
    if np.abs(d1-rot(d0,ktot)).max()>1e-9: issues.append(("disp",ktot))
    if (b.p.orientation[2]-or0-60*ktot)%360 not in (0,0.0): 
        # allow mod 360 with k taken mod 6 per call
        if abs(((b.p.orientation[2]-or0) - 60*ktot) % 360) > 1e-9: issues.append(("orient",ktot,b.p.orientation[2]))
    if b.getRotationNum()!= ( (or0/60 + ktot) % 6): issues.append(("rotnum",ktot,b.getRotationNum()))
print("C08 block rotate issues", len(issues)); print(issues[:6])
# assembly: non-multiple rejected
a=copy.deepcopy(r.core.getFirstAssembly(Flags.FUEL))
try: a.rotate(0.5); print("non-multiple accepted!")
except ValueError: print("non-multiple of 60 rejected OK")
