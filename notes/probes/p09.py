import os, io, tempfile, filecmp, traceback, struct
import numpy as np
from armi import configure
import armi
if not armi.isConfigured(): configure()
from armi.nuclearDataIO.cccc import geodst, dif3d, nhflux, labels, pwdint, rtflux, rzflux, dlayxs, isotxs, gamiso, pmatrx, compxs, fixsrc, cccc
F="/repo/armi/nuclearDataIO/cccc/tests/fixtures"; F2="/repo/armi/nuclearDataIO/tests/fixtures"
d=tempfile.mkdtemp()
cases=[("geodst",geodst.GeodstStream,F+"/simple_hexz.geodst"),("dif3d",dif3d.Dif3dStream,F+"/simple_hexz.dif3d"),
 ("nhflux",nhflux.NhfluxStream,F+"/simple_hexz.nhflux"),("nhfluxV",nhflux.NhfluxStreamVariant,F+"/simple_hexz.nhflux.variant"),
 ("labels",labels.LabelsStream,F+"/labels.binary"),("pwdint",pwdint.PwdintStream,F+"/simple_cartesian.pwdint"),
 ("rtflux",rtflux.RtfluxStream,F+"/simple_cartesian.rtflux"),("rzflux",rzflux.RzfluxStream,F+"/simple_cartesian.rzflux")]
def frames_ok(path):
    b=open(path,"rb").read(); pos=0; n=0
    while pos<len(b):
        (l,)=struct.unpack("i",b[pos:pos+4]); 
        if pos+4+l+4>len(b): return False,n
        (t,)=struct.unpack("i",b[pos+4+l:pos+8+l])
        if t!=l: return False,n
        pos+=8+l; n+=1
    return True,n
for name,S,path in cases:
    try:
        data=S.readBinary(path)
        out=os.path.join(d,name+".bin"); S.writeBinary(data,out)
        same=filecmp.cmp(path,out,shallow=False)
        asc=os.path.join(d,name+".asc"); S.writeAscii(data,asc)
        data2=S.readAscii(asc)
        out2=os.path.join(d,name+".bin2"); S.writeBinary(data2,out2)
        same2=filecmp.cmp(path,out2,shallow=False)
        print(name,"binary rewrite identical:",same,"| via ascii identical:",same2,"| frames",frames_ok(out))
    except Exception as e:
        print(name,"EXC",type(e).__name__,str(e)[:100]); 
# libs
for name,mod,path in [("isotxs",isotxs,F2+"/ISOAA"),("gamiso",gamiso,F2+"/AA.gamiso"),("pmatrx",pmatrx,F2+"/AA.pmatrx"),("dlayxs",dlayxs,F+"/mc2v3.dlayxs")]:
    try:
        lib=mod.readBinary(path); out=os.path.join(d,name+".bin"); mod.writeBinary(lib,out)
        same=filecmp.cmp(path,out,shallow=False)
        asc=os.path.join(d,name+".asc"); mod.writeAscii(lib,asc); lib2=mod.readAscii(asc); out2=os.path.join(d,name+".b2"); mod.writeBinary(lib2,out2)
        print(name,"binary rewrite identical:",same,"| via ascii:",filecmp.cmp(path,out2,shallow=False),"| frames",frames_ok(out))
    except Exception as e:
        print(name,"EXC",type(e).__name__,str(e)[:100])
try:
    lib=compxs.readAscii("/repo/armi/tests/COMPXS.ascii"); out=os.path.join(d,"compxs.bin"); compxs.writeBinary(lib,out); lib2=compxs.readBinary(out)
    out2=os.path.join(d,"compxs.asc"); compxs.writeAscii(lib2,out2); print("compxs ascii->bin->ascii identical:", filecmp.cmp("/repo/armi/tests/COMPXS.ascii",out2,shallow=False), frames_ok(out))
except Exception as e: print("compxs EXC",type(e).__name__,str(e)[:100])
