import os, tempfile
from armi import configure
import armi
if not armi.isConfigured(): configure()
from armi.nuclearDataIO.cccc import dif3d, cccc
F="/repo/armi/nuclearDataIO/cccc/tests/fixtures"
d=tempfile.mkdtemp()
data=dif3d.Dif3dStream.readBinary(F+"/simple_hexz.dif3d")
asc=os.path.join(d,"a.asc"); dif3d.Dif3dStream.writeAscii(data,asc)
txt=open(asc).read().split("\n")
for i,l in enumerate(txt[:8]): print(i,len(l),repr(l[:150]))
# trace reader calls
orig=cccc.AsciiRecordReader
calls=[]
class T(orig):
    def rwInt(self,v):
        pos=self._stream.tell(); x=orig.rwInt(self,v); calls.append(("int",pos,x)); return x
    def rwFloat(self,v):
        pos=self._stream.tell(); x=orig.rwFloat(self,v); calls.append(("float",pos,x)); return x
    def rwString(self,v,l):
        pos=self._stream.tell(); x=orig.rwString(self,v,l); calls.append(("str",pos,l,x)); return x
cccc.Stream._fileModes["r"]=T
try:
    dif3d.Dif3dStream.readAscii(asc)
except Exception as e:
    print("EXC",type(e).__name__,e)
print(calls[-8:])
