import time, os
t=time.time()
from armi import configure
import armi
if not armi.isConfigured(): configure()
from armi.reactor.tests import test_reactors
from armi.tests import TEST_ROOT
print('import', time.time()-t)
t=time.time()
o, r = test_reactors.loadTestReactor(os.path.join(TEST_ROOT,'smallestTestReactor'), inputFileName='armiRunSmallest.yaml')
print('load smallest', time.time()-t, len(r.core), [len(a) for a in r.core])
t=time.time()
o, r = test_reactors.loadTestReactor(TEST_ROOT)
print('load ref', time.time()-t, len(r.core))
