import os, random
import numpy as np
from armi import configure
import armi
if not armi.isConfigured(): configure()
from armi.nuclearDataIO.cccc import isotxs
from armi.nuclearDataIO import xsCollections as xc
lib=isotxs.readBinary("/repo/armi/nuclearDataIO/tests/fixtures/ISOAA")
rnd=random.Random(1)
labels=lib.nuclideLabels
nucNames=sorted({lib[l].name for l in labels})
print(len(labels), nucNames[:6])
issues=[]
def dens(k): 
    return {n:rnd.random()*1e-2 for n in rnd.sample(nucNames,k)}
def macro(nd):
    return xc.computeMacroscopicGroupConstants("capture", nd, lib, "AA")  # try a reaction key
import inspect; print(inspect.signature(xc.computeMacroscopicGroupConstants))
for trial in range(50):
    a=dens(5); b=dens(4)
    s={k:a.get(k,0)+b.get(k,0) for k in set(a)|set(b)}
    for rxn in ("fission","nGamma","n2n"):
        try:
            ma=xc.computeMacroscopicGroupConstants(rxn,a,lib,"AA"); mb=xc.computeMacroscopicGroupConstants(rxn,b,lib,"AA"); ms=xc.computeMacroscopicGroupConstants(rxn,s,lib,"AA")
            m2=xc.computeMacroscopicGroupConstants(rxn,{k:2.5*v for k,v in a.items()},lib,"AA")
            me=xc.computeMacroscopicGroupConstants(rxn,{},lib,"AA")
        except Exception as e:
            issues.append((rxn,"EXC",type(e).__name__,str(e)[:60])); continue
        if not np.allclose(ma+mb,ms,rtol=1e-12,atol=0): issues.append((rxn,"additive"))
        if not np.allclose(2.5*ma,m2,rtol=1e-12,atol=0): issues.append((rxn,"linear"))
        if np.any(me!=0): issues.append((rxn,"empty"))
        # direct sum
        exp=sum(v*getattr(lib[k+"AA"].micros,rxn) for k,v in a.items())
        if not np.allclose(exp,ma,rtol=1e-12): issues.append((rxn,"direct"))
    # missing nuclide
    try:
        mm=xc.computeMacroscopicGroupConstants("fission",{**a,"XX999":1.0},lib,"AA")
        if not np.allclose(mm, xc.computeMacroscopicGroupConstants("fission",a,lib,"AA")): issues.append(("missing","changed"))
    except Exception as e: issues.append(("missing","EXC",type(e).__name__))
import collections
print("C10 macro issues", len(issues), collections.Counter(i[:2] for i in issues).most_common(6)); print(issues[:3])
