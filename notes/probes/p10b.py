import os, itertools
import numpy as np
from armi import configure
import armi
if not armi.isConfigured(): configure()
from armi.nuclearDataIO.cccc import isotxs, gamiso, pmatrx
from armi.nuclearDataIO import xsLibraries
F="/repo/armi/nuclearDataIO/tests/fixtures"
def load(kind):
    return {"isoAA":lambda: isotxs.readBinary(F+"/ISOAA"),"isoAB":lambda: isotxs.readBinary(F+"/ISOAB"),
            "gamAA":lambda: gamiso.readBinary(F+"/AA.gamiso"),"gamAB":lambda: gamiso.readBinary(F+"/AB.gamiso"),
            "pmAA":lambda: pmatrx.readBinary(F+"/AA.pmatrx"),"pmAB":lambda: pmatrx.readBinary(F+"/AB.pmatrx")}[kind]()
def sig(lib):
    out={}
    for lab in lib.nuclideLabels:
        n=lib[lab]
        d={}
        for coll,name in ((n.micros,"n"),(n.gammaXS,"g")):
            for k,v in coll.__dict__.items():
                if v is None or k=="source": continue
                if hasattr(v,"toarray"): v=v.toarray()
                if isinstance(v,np.ndarray): d[name+k]=(v.shape, float(np.nansum(v)))
                elif isinstance(v,dict): d[name+k]=len(v)
        for a in ("neutronHeating","neutronDamage","gammaHeating","isotropicProduction","linearAnisotropicProduction"):
            v=getattr(n,a,None)
            if v is not None:
                if hasattr(v,"toarray"): v=v.toarray()
                d[a]=(np.shape(v), float(np.nansum(v)))
        out[lab]=d
    return out
kinds=["isoAA","isoAB","gamAA","gamAB","pmAA","pmAB"]
ref=None; bad=0; n=0
for perm in itertools.permutations(kinds):
    if n>=60: break
    n+=1
    lib=xsLibraries.IsotxsLibrary()
    try:
        for k in perm: lib.merge(load(k))
    except Exception as e:
        print("perm",perm,"EXC",type(e).__name__,str(e)[:80]); bad+=1; continue
    s=sig(lib)
    if ref is None: ref=s; print("labels",len(s))
    elif s!=ref:
        bad+=1; 
        dl=[l for l in ref if ref[l]!=s.get(l)]
        print("perm",perm,"differs at",dl[:3], {k:(ref[dl[0]].get(k),s[dl[0]].get(k)) for k in set(ref[dl[0]])|set(s[dl[0]]) if ref[dl[0]].get(k)!=s[dl[0]].get(k)} if dl else sorted(set(s)^set(ref))[:4])
print("orders tried",n,"bad",bad)
# conflict: merging the same isotxs twice
lib=xsLibraries.IsotxsLibrary(); lib.merge(load("isoAA"))
try: lib.merge(load("isoAA")); print("duplicate merge accepted!")
except Exception as e: print("duplicate merge rejected:",type(e).__name__)
