import os, random, math
import numpy as np
from armi import configure
import armi
if not armi.isConfigured(): configure()
from armi.reactor.tests import test_reactors
from armi.tests import TEST_ROOT
from armi.reactor.flags import Flags
from armi.reactor.converters import uniformMesh
o, r = test_reactors.loadTestReactor(TEST_ROOT)
core=r.core
rnd=random.Random(8)
issues=[]
def close(a,b,tol=1e-9): return abs(a-b)<=tol*max(1.0,abs(a),abs(b))
assems=core.getAssemblies()
for trial in range(60):
    a=rnd.choice(assems)
    H=a.getTotalHeight()
    # assign profiles
    for b in a:
        b.p.power=rnd.random()*1e6        # volume integrated
        b.p.pdens=rnd.random()*100          # average
        b.p.flux=rnd.random()*1e14
    kind=rnd.choice(["finer","coarser","shifted","identical","nearcoincident"])
    old=[b.p.ztop for b in a]
    if kind=="identical": mesh=list(old)
    elif kind=="finer":
        pts=set(old)
        for _ in range(rnd.randint(1,6)): pts.add(round(rnd.random()*H,3))
        pts.discard(0.0); mesh=sorted(pts)
    elif kind=="coarser":
        keep=[z for z in old[:-1] if rnd.random()<0.5]; mesh=sorted(set(keep+[old[-1]]))
    elif kind=="shifted":
        mesh=sorted(set([min(H-1e-3,max(1e-3,z+rnd.uniform(-3,3))) for z in old[:-1]]+[old[-1]]))
    else:
        mesh=sorted(set([z+rnd.choice([1e-9,-1e-9,1e-7,0]) for z in old[:-1]]+[old[-1]]))
    bparams=["power","pdens","flux"]
    pm=uniformMesh.ParamMapper([], bparams, a[0])
    try:
        new=uniformMesh.UniformMeshGeometryConverter.makeAssemWithUniformMesh(a, mesh, paramMapper=pm, mapNumberDensities=True)
    except Exception as e:
        issues.append((kind,"EXC",type(e).__name__,str(e)[:80])); continue
    if not close(new.getTotalHeight(),H): issues.append((kind,"height"))
    nucs=sorted(a.getNuclides())
    for n in rnd.sample(nucs,5):
        m0=a.getMass(n); m1=new.getMass(n)
        if not close(m0,m1,1e-7): issues.append((kind,"mass",n,m0,m1, a.getType())); break
    p0=sum(b.p.power for b in a); p1=sum(b.p.power for b in new)
    if not close(p0,p1,1e-9): issues.append((kind,"power-total",p0,p1))
    # averaged: height-weighted mean
    for nb_ in new:
        ov=a.getBlocksBetweenElevations(nb_.p.zbottom, nb_.p.ztop)
        exp=sum(sb.p.pdens*h for sb,h in ov)/nb_.getHeight()
        if not close(nb_.p.pdens,exp,1e-9): issues.append((kind,"avg",nb_.p.pdens,exp)); break
        hs=[h for _,h in ov]
        if any(h<=0 for h in hs) or not close(sum(hs), nb_.p.ztop-nb_.p.zbottom,1e-6): issues.append((kind,"partition",hs)); break
    # map back
    uniformMesh.UniformMeshGeometryConverter.setAssemblyStateFromOverlaps(new, a, pm, mapNumberDensities=False)
    p2=sum(b.p.power for b in a)
    if not close(p0,p2,1e-9): issues.append((kind,"roundtrip-power",p0,p2))
import collections
print("C11 issues:", len(issues), collections.Counter((i[0],i[1]) for i in issues).most_common(8))
for i in issues[:8]: print(i)
