import os, random, copy
import numpy as np
from armi import configure
import armi
if not armi.isConfigured(): configure()
from armi.reactor.tests import test_reactors
from armi.tests import TEST_ROOT
from armi.reactor.flags import Flags
from armi.reactor.converters.axialExpansionChanger import AxialExpansionChanger
from armi.reactor.converters.axialExpansionChanger.expansionData import iterSolidComponents
o, r = test_reactors.loadTestReactor(os.path.join(TEST_ROOT,"detailedAxialExpansion"))
rnd=random.Random(5)
def close(a,b,t=1e-9): return abs(a-b)<=t*max(1,abs(a),abs(b))
issues=[]
assems=r.core.getAssemblies()
for trial in range(30):
    a=copy.deepcopy(rnd.choice(assems))
    H0=a.getTotalHeight()
    chg=AxialExpansionChanger(detailedAxialExpansion=True)
    mode=rnd.choice(["uniform","percomp","inverse","thermal"])
    try:
        chg.setAssembly(a)
    except Exception as e:
        issues.append(("setAssembly",type(e).__name__,str(e)[:60])); continue
    solids=[(b,c) for b in a[:-1] for c in iterSolidComponents(b)]
    m0={id(c):c.getMass() for b,c in solids}
    h0=[b.getHeight() for b in a]; nd0={id(c):dict(c.getNumberDensities()) for b,c in solids}
    seq=rnd.randint(1,3)
    for s in range(seq):
        if mode=="uniform" or mode=="inverse":
            per={id(b):1+rnd.uniform(-0.03,0.05) for b in a}
            comps=[c for b,c in solids]; pcts=[per[id(b)] for b,c in solids]
            chg.performPrescribedAxialExpansion(a,comps,pcts,setFuel=True)
            if mode=="inverse":
                chg.performPrescribedAxialExpansion(a,comps,[1/p for p in pcts],setFuel=True)
        elif mode=="percomp":
            comps=[c for b,c in solids]; pcts=[1+rnd.uniform(-0.02,0.04) for _ in solids]
            chg.performPrescribedAxialExpansion(a,comps,pcts,setFuel=True)
        else:
            grid=np.linspace(0,H0,600); field=np.array([400+rnd.uniform(0,200)+z*rnd.uniform(0,1) for z in grid])
            chg.performThermalAxialExpansion(a,list(grid),list(field),setFuel=True)
        # invariants
        if not close(a.getTotalHeight(),H0,1e-10): issues.append((mode,"height",a.getTotalHeight(),H0))
        zb=0.0
        for ib,b in enumerate(a):
            if not close(b.p.zbottom,zb,1e-10): issues.append((mode,"contig",ib)); break
            if b.getHeight()<=0: issues.append((mode,"nonpos",ib))
            if not close(b.p.ztop-b.p.zbottom,b.getHeight(),1e-10): issues.append((mode,"hdef",ib))
            zb=b.p.ztop
        bounds=a.spatialGrid._bounds[2]
        if not np.allclose(bounds,[0.0]+[b.p.ztop for b in a],rtol=0,atol=1e-10): issues.append((mode,"bounds"))
    if mode=="uniform":
        for b,c in solids:
            if not close(c.getMass(),m0[id(c)],1e-9): issues.append((mode,"mass",b.getType(),c.name,c.getMass()/m0[id(c)]-1)); break
    if mode=="inverse":
        for ib,b in enumerate(a):
            if not close(b.getHeight(),h0[ib],1e-9): issues.append((mode,"h-restore",ib)); break
        for b,c in solids:
            if not close(c.getMass(),m0[id(c)],1e-9): issues.append((mode,"m-restore",c.name)); break
            if any(not close(v,nd0[id(c)][k],1e-9) for k,v in c.getNumberDensities().items()): issues.append((mode,"nd-restore",c.name)); break
import collections
print("C12 issues",len(issues),collections.Counter((i[0],i[1]) for i in issues).most_common())
for i in issues[:6]: print(i)
