import os, copy, random
from armi import configure
import armi
if not armi.isConfigured(): configure()
from armi.reactor.tests import test_reactors
from armi.tests import TEST_ROOT
from armi.reactor.flags import Flags
from armi.reactor.converters import geometryConverters as gc
o, r = test_reactors.loadTestReactor(TEST_ROOT)
core=r.core
rnd=random.Random(1)
def close(a,b,t=1e-9): return abs(a-b)<=t*max(1,abs(a),abs(b))
for b in core.getBlocks():
    b.p.power=rnd.random()*1e5; b.p.flux=rnd.random()
def state(core):
    return {(tuple(int(v) for v in a.spatialLocator.indices[:2])):(a.name,a.getType(),tuple((round(b.p.power,6),round(b.p.flux,9),round(b.getHeight(),9)) for b in a)) for a in core}
s0=state(core); m0={n:core.getMass(n) for n in ("U235","U238","NA23","FE56")}; v0=core.getVolume(); p0=sum(b.p.power for b in core.getBlocks()); n0=len(core)
names0={a.name for a in core}
byName0=dict(core.assembliesByName); 
ch=gc.ThirdCoreHexToFullCoreChanger(o.cs); ch.convert(r)
print("count",len(core),3*n0-2)
for n,m in m0.items():
    print(" mass x3",n, close(core.getMass(n),3*m,1e-9), core.getMass(n)/m)
print(" volume x3", core.getVolume()/v0, " power x3", sum(b.p.power for b in core.getBlocks())/p0)
print(" unique names", len({a.name for a in core})==len(core), "isFullCore", core.isFullCore)
# each new assembly independent copy
new=[a for a in core if a.name not in names0]
ids=set()
for a in new:
    for c in [a]+a.getChildren(deep=True): ids.add(id(c))
orig_ids={id(c) for a in core if a.name in names0 for c in [a]+a.getChildren(deep=True)}
print(" copies share nodes with originals:", bool(ids&orig_ids))
ch.restorePreviousGeometry(r)
s1=state(core)
print("restore: same cells/names/params:", s1==s0, "| symmetry", core.symmetry, "| mass back", all(close(core.getMass(n),m) for n,m in m0.items()), "| power back", close(sum(b.p.power for b in core.getBlocks()),p0,1e-12))
diff=[k for k in s0 if s0[k]!=s1.get(k)]
print(" diffs", diff[:3], [ (s0[k][2][:1], s1[k][2][:1]) for k in diff[:2]])
print(" byName same:", {k:id(v) for k,v in core.assembliesByName.items()}=={k:id(v) for k,v in byName0.items()}, len(core.assembliesByName), len(byName0))
print(" byLocator count", len(core.childrenByLocator), len(core))
