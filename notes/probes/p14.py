import os, random, copy
from armi import configure
import armi
if not armi.isConfigured(): configure()
from armi.reactor.tests import test_reactors
from armi.tests import TEST_ROOT
from armi.reactor.flags import Flags
from armi.physics.fuelCycle import fuelHandlers
from armi.reactor.spentFuelPool import SpentFuelPool
rnd = random.Random(2)
issues=[]
for track in (True, False):
    o, r = test_reactors.loadTestReactor(TEST_ROOT, customSettings={"trackAssems": track})
    core=r.core; sfp=r.excore["sfp"]
    fh = fuelHandlers.FuelHandler(o)
    def contents(a): return tuple((b.getType(), round(b.getHeight(),9), tuple(sorted((k,round(v,12)) for k,v in b.getNumberDensities().items()))) for b in a)
    universe = {a.name: contents(a) for a in core}
    universe.update({a.name: contents(a) for a in sfp})
    purged=set()
    def check(tag):
        kids=list(core)
        names=[a.name for a in kids]
        if len(set(names))!=len(names): issues.append((tag,"dup in core"))
        locs=[tuple(int(x) for x in a.spatialLocator.indices) for a in kids]
        if len(set(locs))!=len(locs): issues.append((tag,"two at one loc"))
        byLoc=core.childrenByLocator
        if len(byLoc)!=len(kids): issues.append((tag,"byLoc size",len(byLoc),len(kids)))
        for a in kids:
            if byLoc.get(a.spatialLocator) is not a: issues.append((tag,"byLoc wrong",a.name))
            if a.parent is not core: issues.append((tag,"parent",a.name))
            if core.assembliesByName.get(a.name) is not a: issues.append((tag,"byName",a.name))
            for b in a:
                if core.blocksByName.get(b.name) is not b: issues.append((tag,"blocksByName",b.name)); break
        for a in sfp:
            if track and core.assembliesByName.get(a.name) is not a: issues.append((tag,"sfp byName",a.name))
        for n in purged:
            if n in core.assembliesByName: issues.append((tag,"purged still found",n))
        present={a.name for a in kids}|{a.name for a in sfp}
        expected=set(universe)-purged
        if present!=expected: issues.append((tag,"inventory", sorted(expected-present)[:3], sorted(present-expected)[:3]))
        for a in list(kids)+list(sfp):
            if contents(a)!=universe[a.name]: issues.append((tag,"contents changed",a.name)); break
    check("init")
    for step in range(60):
        kids=list(core)
        op=rnd.choice(["swap","swap","discharge-new","discharge-sfp","cascade"])
        try:
            if op=="swap":
                a1,a2=rnd.sample(kids,2); fh.swapAssemblies(a1,a2)
            elif op=="cascade":
                lst=rnd.sample(kids,rnd.randint(2,5)); fh.swapCascade(lst)
            elif op=="discharge-new":
                out=rnd.choice(kids); inc=copy.deepcopy(rnd.choice(kids)); inc.makeUnique()
                # name assigned at add; track contents under the new name afterwards
                fh.dischargeSwap(inc,out)
                universe[inc.name]=contents(inc)
                if not track: purged.add(out.name)
            elif op=="discharge-sfp" and len(sfp)>0 :
                out=rnd.choice(kids); inc=rnd.choice(list(sfp)); fh.dischargeSwap(inc,out)
                if not track: purged.add(out.name)
        except Exception as e:
            issues.append((f"{track}-{step}-{op}","EXC",type(e).__name__,str(e)[:80]))
        check(f"{track}-{step}-{op}")
        if len(issues)>10: break
print("C14 issues:", len(issues))
for i in issues[:10]: print(i)
