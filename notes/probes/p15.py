import os, random, tempfile
from armi import configure
import armi
if not armi.isConfigured(): configure()
from armi.reactor.tests import test_reactors
from armi.tests import TEST_ROOT
from armi import interfaces, settings
d=tempfile.mkdtemp(); os.chdir(d)
LOG=[]
class Rec(interfaces.Interface):
    name="rec"
    def __init__(self, r, cs, name, enabled=True, bolForce=False, reverse=False, haltAt=None):
        self.name=name; super().__init__(r,cs); self._en=enabled; self._bf=bolForce; self.reverseAtEOL=reverse; self.haltAt=haltAt
    def enabled(self, flag=None): return self._en
    def bolForce(self, flag=None): return self._bf
    def _log(self, ev, *a): LOG.append((ev, self.name)+a+(self.r.p.cycle, self.r.p.timeNode))
    def interactBOL(self): self._log("BOL")
    def interactBOC(self, cycle=None):
        self._log("BOC", cycle)
        if self.haltAt is not None and cycle==self.haltAt: return True
    def interactEveryNode(self, cycle, node): self._log("EN", cycle, node)
    def interactEOC(self, cycle=None): self._log("EOC", cycle)
    def interactEOL(self): self._log("EOL")
rnd=random.Random(3)
issues=[]
for trial in range(25):
    nC=rnd.randint(1,3); bs=rnd.randint(0,3)
    if bs==0: nC=1
    startC=rnd.randint(0,nC-1) if rnd.random()<0.4 else 0
    startN=rnd.randint(0,bs) if startC or rnd.random()<0.3 else 0
    cs_over={"nCycles":nC,"burnSteps":bs,"cycleLength":10.0, "startCycle":0,"startNode":0}
    o, r = test_reactors.loadTestReactor(os.path.join(TEST_ROOT,'smallestTestReactor'), inputFileName='armiRunSmallest.yaml', customSettings=cs_over)
    o.removeAllInterfaces()
    stack=[]
    n=rnd.randint(1,5)
    haltC = rnd.choice([None,None,rnd.randint(0,nC-1)])
    for k in range(n):
        spec=dict(name=f"i{k}", enabled=rnd.random()<0.8, bolForce=rnd.random()<0.3, reverse=rnd.random()<0.3, haltAt=(haltC if k==0 else None))
        stack.append(spec)
        o.addInterface(Rec(r,o.cs,**spec))
    r.p.cycle=startC; r.p.timeNode=startN
    del LOG[:]
    o._mainOperate()
    # reference schedule
    exp=[]
    def act(ev):
        if ev=="BOL": return [s for s in stack if s["enabled"] or s["bolForce"]]
        a=[s for s in stack if s["enabled"]]
        if ev=="EOL": a=[s for s in a if not s["reverse"]]+list(reversed([s for s in a if s["reverse"]]))
        return a
    for s in act("BOL"): exp.append(("BOL",s["name"],startC,startN))
    for c in range(startC,nC):
        sn = startN if c==startC else 0
        halted=False
        for s in act("BOC"):
            exp.append(("BOC",s["name"],c,c,sn))
            if s["haltAt"] is not None and s["haltAt"]==c: halted=True
        if halted: break
        nodes=list(range(sn,bs))+[bs]
        for nd in nodes:
            for s in act("EN"): exp.append(("EN",s["name"],c,nd,c,nd))
        lastnode = nodes[-1]
        for s in act("EOC"): exp.append(("EOC",s["name"],c,c,lastnode))
    fc = LOG[-1][-2] if LOG else None
    got=[e for e in LOG if e[0]!="EOL"]
    if got!=exp:
        # find first diff
        k=next((i for i,(x,y) in enumerate(zip(got,exp)) if x!=y), min(len(got),len(exp)))
        issues.append((dict(nC=nC,bs=bs,startC=startC,startN=startN,halt=haltC,stack=[(s['name'],s['enabled'],s['bolForce'],s['reverse']) for s in stack]), "at",k, got[k] if k<len(got) else None, exp[k] if k<len(exp) else None, len(got),len(exp)))
    eol=[e[1] for e in LOG if e[0]=="EOL"]
    if eol!=[s["name"] for s in act("EOL")]: issues.append(("EOLorder",eol,[s["name"] for s in act("EOL")]))
print("C15 issues:",len(issues))
for i in issues[:5]: print(i)
