import os, random, copy, pickle
import numpy as np
from armi import configure
import armi
if not armi.isConfigured(): configure()
from armi.reactor.tests import test_reactors
from armi.tests import TEST_ROOT
from armi.reactor import parameters
from armi.reactor.parameters import parameterDefinitions as pd
o, r = test_reactors.loadTestReactor(TEST_ROOT)
rnd = random.Random(11)
def snap(obj):
    """all parameter values of obj and descendants, by serial"""
    out={}
    for c in [obj]+obj.getChildren(deep=True):
        d={}
        for pdef in c.p.paramDefs:
            v = getattr(c.p, pdef.fieldName, "<unset>")
            d[pdef.name]=v
        out[id(c)]=d
    return out
def same(a,b):
    if type(a)!=type(b) and not (isinstance(a,(int,float)) and isinstance(b,(int,float))): return False
    if isinstance(a,np.ndarray): return a.shape==b.shape and bool(np.array_equal(a,b, equal_nan=True)) if a.dtype.kind in 'fc' else (a.shape==b.shape and bool(np.array_equal(a,b)))
    if isinstance(a,(list,tuple)): return len(a)==len(b) and all(same(x,y) for x,y in zip(a,b))
    if isinstance(a,dict): return a.keys()==b.keys() and all(same(a[k],b[k]) for k in a)
    if isinstance(a,float) and isinstance(b,float) and a!=a and b!=b: return True
    try: return bool(a==b)
    except Exception: return a is b
def diff(s0,s1,keepNames=()):
    out=[]
    for k in s0:
        for name,v in s0[k].items():
            if name in keepNames: continue
            if not same(v, s1[k].get(name,"<missing>")): out.append((name, repr(v)[:40], repr(s1[k].get(name))[:40]))
    return out
issues=[]
objs = [r, r.core] + r.core.getChildren()[:6] + r.core.getBlocks()[:10] + [c for b in r.core.getBlocks()[:4] for c in b]
for trial in range(25):
    root = rnd.choice(objs)
    s0 = snap(root)
    targets = [root]+root.getChildren(deep=True)
    keepDefs=set(); keepNames=set()
    with root.retainState():
        for _ in range(rnd.randint(1,15)):
            t = rnd.choice(targets)
            pdefs=[p for p in t.p.paramDefs if p.name not in ("serialNum",)]
            p = rnd.choice(pdefs)
            cur = getattr(t.p, p.fieldName, None)
            try:
                if isinstance(cur,(int,float)) and not isinstance(cur,bool): t.p[p.name]= cur+1.5 if isinstance(cur,float) else cur+1
                elif isinstance(cur,np.ndarray) and cur.dtype.kind=='f': t.p[p.name]=cur*2+1
                elif isinstance(cur,list): t.p[p.name]=list(cur)+[1.0]
                elif isinstance(cur,str): t.p[p.name]=cur+"x"
                elif cur is None: t.p[p.name]=rnd.choice([3.25,[1.0,2.0],np.array([1.0,2.0])])
                elif isinstance(cur,dict): t.p[p.name]={**cur,"U235":1e-3}
            except Exception as e:
                pass
        inner = snap(root)
    s1 = snap(root)
    d = diff(s0,s1)
    if d: issues.append((type(root).__name__, d[:3]))
print("retainState restore issues:", len(issues)); 
for i in issues[:5]: print(i)
# serial numbers unique among live objects
allobjs=[r]+r.getChildren(deep=True)
sn=[c.p.serialNum for c in allobjs]
print("objects", len(sn), "unique serials", len(set(sn)))
a=r.core.getAssemblies()[3]
a2=copy.deepcopy(a)
s_orig={c.p.serialNum for c in [a]+a.getChildren(deep=True)}
s_copy={c.p.serialNum for c in [a2]+a2.getChildren(deep=True)}
print("deepcopy fresh serials disjoint:", not (s_orig & s_copy), "and disjoint from reactor:", not (s_copy & set(sn)))
a3=pickle.loads(pickle.dumps(a))
print("pickle keeps serials:", {c.p.serialNum for c in [a3]+a3.getChildren(deep=True)}==s_orig, "parent None:", a3.parent is None, "children relinked:", all(b.parent is a3 for b in a3), "grid owner:", a3.spatialGrid.armiObject is a3)
