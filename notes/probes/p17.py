import io, random, copy, collections
from armi import configure
import armi
if not armi.isConfigured(): configure()
from armi import settings
from armi.settings import setting as sm
import voluptuous as vol
from armi.reactor.flags import Flags
rnd=random.Random(4)
cs0=settings.Settings()
names=sorted(cs0.keys()) if hasattr(cs0,'keys') else sorted(n for n,_ in cs0.items())
print("n settings", len(names))
kinds=collections.Counter()
issues=[]
def variants(s):
    d=s.default; out=[]
    if s.options and s.enforcedOptions:
        out+= [o for o in s.options if o!=d][:3]
    elif isinstance(d,bool): out.append(not d)
    elif isinstance(d,int): out+= [d+1, d+7, 0]
    elif isinstance(d,float): out+= [d+0.5, d*3+1.25, 1e-7, 123456.789]
    elif isinstance(d,str): out+= [d+"x", "some value", "a: b", "#hash", "  padded ", "1e5", "yes", "null", ""]
    elif isinstance(d,list):
        if d and isinstance(d[0],(int,float)) and not isinstance(d[0],bool): out+= [d+[d[0]], [d[0]*2+1]]
        elif d and isinstance(d[0],str): out+= [d+["zz"], ["a b","c"]]
        else: out+= [["abc"],[1.5,2.5],[1,2]]
    elif isinstance(d,dict): out+= [{"a":1}]
    elif d is None: out+= [1,"x",2.5]
    return out
for n in names:
    s=cs0.getSetting(n)
    kinds[type(s.default).__name__]+=1
    for v in variants(s):
        cs=settings.Settings()
        if n!='uniformMeshMinimumSize': cs['uniformMeshMinimumSize']=1.0
        try:
            cs[n]=v
        except Exception as e:
            continue  # rejected at assignment: allowed
        val=cs[n]
        for style in ("short","medium","full"):
            buf=io.StringIO()
            try:
                cs.writeToYamlStream(buf, style=style)
            except Exception as e:
                issues.append((n,repr(v)[:30],style,"WRITE-EXC",type(e).__name__,str(e)[:50])); continue
            txt=buf.getvalue()
            cs2=settings.Settings()
            try:
                cs2.loadFromString(txt, handleInvalids=False)
            except Exception as e:
                issues.append((n,repr(v)[:30],style,"READ-EXC",type(e).__name__,str(e)[:60])); continue
            if cs2[n]!=val or type(cs2[n])!=type(val):
                issues.append((n,repr(val)[:30],style,"DIFF",repr(cs2[n])[:30])); 
            # others stay default
            if style=="short":
                off=[m for m in names if m not in (n,'versions','uniformMeshMinimumSize') and cs2[m]!=cs0[m]]
                if off: issues.append((n,repr(v)[:20],style,"OTHERS",off[:3]))
            break_=False
print(kinds)
print("C17 issues:", len(issues))
c=collections.Counter((i[0],i[3]) for i in issues)
for k,v in c.most_common(40): print(k,v)
for i in issues[:12]: print(i)
