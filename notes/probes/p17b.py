import io
from armi import configure
import armi
if not armi.isConfigured(): configure()
from armi import settings
from ruamel.yaml import YAML
cs=settings.Settings()
buf=io.StringIO(); cs.writeToYamlStream(buf, style="full"); txt=buf.getvalue()
tree=YAML(typ="rt").load(txt)["settings"]
bad=[]
for k,v in tree.items():
    c2=settings.Settings()
    try:
        if k in c2: c2[k]=v
    except Exception as e:
        bad.append((k, repr(v)[:40], repr(cs.getSetting(k).default)[:30], type(e).__name__, str(e)[:40]))
print(len(tree),"settings written;", len(bad), "cannot be read back:")
for b in bad: print(b)
for style in ("short","medium"):
    buf=io.StringIO(); cs.writeToYamlStream(buf, style=style)
    c3=settings.Settings(); c3.loadFromString(buf.getvalue(), handleInvalids=False); print(style,"default round trip ok")
