import io
from armi import configure
import armi
if not armi.isConfigured(): configure()
from armi import settings
s=settings.Settings().getSetting("verbosity")
print("verbosity default", repr(s.default), "options", s.options, "enforced", s.enforcedOptions)
for v in s.options[:4]:
    cs=settings.Settings(); cs["verbosity"]=v
    buf=io.StringIO(); cs.writeToYamlStream(buf, style="short"); txt=buf.getvalue()
    print(repr(v), "->", txt.replace("\n"," | ")[:120])
    try:
        c2=settings.Settings(); c2.loadFromString(txt, handleInvalids=False); print("   read back", repr(c2["verbosity"]))
    except Exception as e: print("   READ-EXC", type(e).__name__, str(e)[:100])
m=settings.Settings().getSetting("moduleVerbosity"); print("moduleVerbosity default", m.default)
cs=settings.Settings(); cs["moduleVerbosity"]={"a":1}
buf=io.StringIO(); cs.writeToYamlStream(buf, style="short"); print(buf.getvalue())
try:
    c2=settings.Settings(); c2.loadFromString(buf.getvalue(), handleInvalids=False); print(c2["moduleVerbosity"])
except Exception as e: print("   READ-EXC", type(e).__name__, str(e)[:100])
