import os, io, random, math, tempfile, textwrap, traceback, collections
from armi import configure
import armi
if not armi.isConfigured(): configure()
from armi import settings, runLog
from armi.reactor import blueprints, reactors, grids
from armi.reactor.flags import Flags
runLog.setVerbosity("error")
rnd=random.Random(12)
MATS_SOLID=["HT9","UZr","HT9"]  # keep simple
def gen():
    doc={}
    nbd=rnd.randint(1,3)
    blocks={}
    for bi in range(nbd):
        name=rnd.choice(["fuel","shield","reflector","plenum","duct"])+("" if bi==0 else f" {bi}")
        nPins=rnd.choice([1,7,19,37,61])
        fod=round(rnd.uniform(0.4,0.8),3)
        gap=round(rnd.uniform(0.0,0.05),3)
        cth=round(rnd.uniform(0.03,0.08),3)
        ip=round(rnd.uniform(12,16),2); op=round(ip+rnd.uniform(0.3,0.8),2)
        Tin=rnd.choice([20.0,25.0]); 
        comps=collections.OrderedDict()
        comps["fuel"]=dict(shape="Circle",material=rnd.choice(["UZr","HT9"]),Tinput=Tin,Thot=rnd.choice([Tin,400.0,600.0]),id=0.0,od=fod,mult=float(nPins))
        linkBond=rnd.random()<0.7
        comps["bond"]=dict(shape="Circle",material="Sodium",Tinput=450.0,Thot=450.0,id=("fuel.od" if linkBond else fod),od=("clad.id" if linkBond else round(fod+2*gap,4)),mult="fuel.mult")
        comps["clad"]=dict(shape="Circle",material="HT9",Tinput=Tin,Thot=rnd.choice([Tin,450.0]),id=round(fod+2*gap,4),od=round(fod+2*gap+2*cth,4),mult="fuel.mult")
        comps["coolant"]=dict(shape="DerivedShape",material="Sodium",Tinput=450.0,Thot=450.0)
        comps["duct"]=dict(shape="Hexagon",material=rnd.choice(["HT9","HT9"]),Tinput=Tin,Thot=rnd.choice([Tin,450.0]),ip=ip,op=op,mult=1.0)
        if rnd.random()<0.5:
            comps["intercoolant"]=dict(shape="Hexagon",material="Sodium",Tinput=450.0,Thot=450.0,ip="duct.op",op=round(op+0.2,2),mult=1.0)
        blocks[name]=comps
    bnames=list(blocks)
    assems={}
    specs=["A1","B2","C3"]
    for ai in range(rnd.randint(1,3)):
        nb=rnd.randint(1,4)
        bl=[rnd.choice(bnames) for _ in range(nb)]
        hts=[round(rnd.uniform(5,40),2) for _ in range(nb)]
        assems[f"assem {ai}"]=dict(specifier=specs[ai],blocks=bl,height=hts,mesh=[rnd.randint(1,3) for _ in range(nb)],xs=[rnd.choice("ABCD") for _ in range(nb)])
    rings=rnd.randint(1,4)
    g=grids.HexGrid.fromPitch(1.0,numRings=0)
    cells=[]
    for r_ in range(1,rings+1):
        for p in range(1,g.getPositionsInRing(r_)+1): cells.append(g.getIndicesFromRingAndPos(r_,p))
    contents={c:rnd.choice([a["specifier"] for a in assems.values()]) for c in cells if (c==(0,0) or rnd.random()>0.15)}
    doc=dict(blocks=blocks,assems=assems,contents=contents,geom=rnd.choice(["hex","hex_corners_up"]))
    return doc
def toYaml(doc):
    out=["blocks:"]
    for bn,comps in doc["blocks"].items():
        out.append(f"    {bn}:")
        for cn,c in comps.items():
            out.append(f"        {cn}:")
            for k,v in c.items(): out.append(f"            {k}: {v}")
    out.append("assemblies:")
    for an,a in doc["assems"].items():
        out.append(f"    {an}:")
        out.append(f"        specifier: {a['specifier']}")
        out.append("        blocks: ["+", ".join(a["blocks"])+"]")   # by name? needs anchors
    return "\n".join(out)
# Using names in 'blocks:' list requires YAML anchors; build with anchors
def toYaml(doc):
    out=["blocks:"]
    for bi,(bn,comps) in enumerate(doc["blocks"].items()):
        out.append(f"    {bn}: &blk{bi}")
        for cn,c in comps.items():
            out.append(f"        {cn}:")
            for k,v in c.items(): out.append(f"            {k}: {v}")
    idx={bn:i for i,bn in enumerate(doc["blocks"])}
    out.append("assemblies:")
    for an,a in doc["assems"].items():
        out.append(f"    {an}:")
        out.append(f"        specifier: {a['specifier']}")
        out.append("        blocks: ["+", ".join(f"*blk{idx[b]}" for b in a["blocks"])+"]")
        out.append(f"        height: {a['height']}")
        out.append(f"        axial mesh points: {a['mesh']}")
        out.append(f"        xs types: {a['xs']}")
    out.append("systems:\n    core:\n        grid name: core\n        origin:\n            x: 0.0\n            y: 0.0\n            z: 0.0")
    out.append("grids:\n    core:\n        geom: %s\n        symmetry: full\n        grid contents:"%doc["geom"])
    for (i,j),s in doc["contents"].items(): out.append(f"            ? - {i}\n              - {j}\n            : {s}")
    return "\n".join(out)+"\n"
issues=[]; built=0; rejected=collections.Counter()
d=tempfile.mkdtemp(); os.chdir(d)
for trial in range(60):
    doc=gen(); y=toYaml(doc)
    try:
        bp=blueprints.Blueprints.load(io.StringIO(y))
        cs=settings.Settings().modified(newSettings={"power":1e6,"nCycles":1,"burnSteps":1,"detailedAxialExpansion":True})
        r=reactors.factory(cs,bp)
    except Exception as e:
        rejected[type(e).__name__+": "+str(e)[:70]]+=1
        if isinstance(e,IndexError) and not globals().get("_tb"): globals()["_tb"]=traceback.format_exc()
        continue
    built+=1
    core=r.core
    spec2a={a["specifier"]:(an,a) for an,a in doc["assems"].items()}
    got={tuple(int(v) for v in a.spatialLocator.indices[:2]):a for a in core}
    if set(got)!=set(doc["contents"]): issues.append(("placement-set",sorted(set(doc["contents"])-set(got))[:3],sorted(set(got)-set(doc["contents"]))[:3]))
    for cell,spec in doc["contents"].items():
        a=got.get(cell)
        if a is None: continue
        an,ad=spec2a[spec]
        if a.getType()!=an: issues.append(("assem-type",cell,a.getType(),an)); continue
        if [b.getType() for b in a]!=ad["blocks"]: issues.append(("block-order",cell)); continue
        z=0.0
        for b,h,xs,bt in zip(a,ad["height"],ad["xs"],ad["blocks"]):
            if abs(b.getHeight()-h)>1e-12 or abs(b.p.zbottom-z)>1e-9: issues.append(("height",cell,b.getHeight(),h,b.p.zbottom,z)); break
            z+=h
            if b.p.xsType!=xs: issues.append(("xs",cell,b.p.xsType,xs)); break
            if b.p.flags!=Flags.fromStringIgnoreErrors(bt): issues.append(("flags",bt,str(b.p.flags))); break
            comps=doc["blocks"][bt]
            if [c.name for c in sorted(b)]!=[c.name for c in b]: pass
            byName={c.name:c for c in b}
            if set(byName)!=set(comps): issues.append(("comp-set",bt)); break
            def resolve(cn,k,depth=0):
                v=comps[cn].get(k)
                if isinstance(v,str) and "." in v and depth<10:
                    t,kk=v.split("."); return resolve(t,kk,depth+1)
                return v
            for cn,cd in comps.items():
                c=byName[cn]
                if type(c).__name__!=cd["shape"]: issues.append(("shape",cn)); break
                if type(c.material).__name__!=cd["material"]: issues.append(("mat",cn,type(c.material).__name__)); break
                if (c.inputTemperatureInC,c.temperatureInC)!=(cd["Tinput"],cd["Thot"]): issues.append(("T",cn)); break
                for k in ("id","od","ip","op","mult"):
                    if k in cd:
                        exp=resolve(cn,k); 
                        # linked dims resolve to HOT dimension of target; compare cold when target cold known
                        gotv=c.getDimension(k,cold=True)
                        tgt=cd[k]
                        if isinstance(tgt,str):
                            t,kk=tgt.split(".")
                            expv=byName[t].getDimension(kk)   # current (hot) dimension of target
                            gotv=c.getDimension(k)
                        else: expv=float(exp)
                        if abs(gotv-expv)>1e-12*max(1,abs(expv)): issues.append(("dim",bt,cn,k,gotv,expv)); break
print("built",built,"rejected",sum(rejected.values()))
for k,v in rejected.most_common(6): print("  REJ",v,k)
print("C18 issues",len(issues),collections.Counter(i[0] for i in issues).most_common())
for i in issues[:8]: print(i)
print(globals().get("_tb","")[-900:])
