import collections, math
from armi import configure
import armi
if not armi.isConfigured(): configure()
from armi.nucDirectory import nuclideBases as nb, elements
inst = nb.instances
print("instances", len(inst), "byName", len(nb.byName), "byLabel", len(nb.byLabel), "byDBName", len(nb.byDBName), "byMcnpId", len(nb.byMcnpId), "byAAAZZZSId", len(nb.byAAAZZZSId), "mcc2", len(nb.byMcc2Id), "mcc3", len(nb.byMcc3Id))
issues=[]
def chk(tag, cond, *info):
    if not cond: issues.append((tag,)+info)
for n in inst:
    chk("byName", nb.byName.get(n.name) is n, n.name, getattr(nb.byName.get(n.name),'name',None))
    chk("byLabel", nb.byLabel.get(n.label) is n, n.name, n.label, getattr(nb.byLabel.get(n.label),'name',None))
    chk("byDBName", nb.byDBName.get(n.getDatabaseName()) is n, n.name, n.getDatabaseName())
    if isinstance(n, nb.IMcnpNuclide):
        try:
            mid=n.getMcnpId(); chk("byMcnp", nb.byMcnpId.get(mid) is n, n.name, mid, getattr(nb.byMcnpId.get(mid),'name',None))
        except Exception as e: issues.append(("mcnpEXC", n.name, str(e)))
    if isinstance(n, nb.NuclideBase):
        aid=n.getAAAZZZSId(); chk("byAAAZZZS", nb.byAAAZZZSId.get(aid) is n, n.name, aid)
        chk("aaazzzs-decode", aid == f"{n.a}{n.z:03d}{n.state}", n.name)
        chk("elem", n.element.z==n.z and n in n.element.nuclides, n.name)
    for getter, table in ((lambda x:x.getMcc2Id(), nb.byMcc2Id),(lambda x:x.getMcc3IdEndfbVII0(), nb.byMcc3IdEndfbVII0),(lambda x:x.getMcc3IdEndfbVII1(), nb.byMcc3IdEndfbVII1)):
        try:
            k=getter(n)
        except Exception:
            continue
        if k: chk("mcc", table.get(k) is n, n.name, k, getattr(table.get(k),'name',None))
# duplicates across instances
for attr in ("name","label"):
    c=collections.Counter(getattr(n,attr) for n in inst)
    d=[k for k,v in c.items() if v>1]
    if d: issues.append(("dup-"+attr, d[:10]))
# abundances
for z,e in elements.byZ.items():
    nat=[n for n in e.nuclides if isinstance(n, nb.NuclideBase) and n.abundance>0]
    s=sum(n.abundance for n in nat)
    if nat and abs(s-1)>1e-6: issues.append(("abund", e.symbol, s))
# burn chain
for n in inst:
    for t in list(getattr(n,'trans',[]))+list(getattr(n,'decays',[])):
        for prodName in t.productNuclides:
            if prodName not in nb.byName: issues.append(("prod", n.name, prodName))
        if not (0<=t.branch<=1): issues.append(("branch", n.name, t.branch))
print("issues:", len(issues))
print(collections.Counter(i[0] for i in issues))
for i in issues[:25]: print(i)
