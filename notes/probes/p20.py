import os, random, math, copy
import numpy as np
from armi import configure
import armi
if not armi.isConfigured(): configure()
from armi.reactor.tests import test_reactors
from armi.tests import TEST_ROOT
from armi.reactor.flags import Flags
from armi.physics.neutronics import crossSectionGroupManager as xg
o, r = test_reactors.loadTestReactor(TEST_ROOT)
core=r.core
rnd=random.Random(9)
issues=[]
def close(a,b,tol=1e-9): return abs(a-b)<=tol*max(1.0,abs(a),abs(b))
fuel=core.getBlocks(Flags.FUEL)
allNucs=r.blueprints.allNuclidesInProblem
for trial in range(40):
    members=rnd.sample(fuel, rnd.randint(1,6))
    for b in members:
        b.p.percentBu=rnd.choice([0.0,rnd.random()*10]); b.p.flux=rnd.choice([0.0, rnd.random()*1e14])
        for c in b:
            if c.getNumberDensities(): c.changeNDensByFactor(rnd.uniform(0.8,1.2))
    wp=rnd.choice([None,"flux"])
    bc=xg.AverageBlockCollection(allNucs)
    bc.weightingParam=wp
    for b in members: bc.append(b)
    before=[{n:b.getNumberDensity(n) for n in sorted(b.getNuclides())} for b in members]
    try:
        rep=bc.createRepresentativeBlock()
    except Exception as e:
        issues.append(("EXC",type(e).__name__,str(e)[:80])); continue
    after=[{n:b.getNumberDensity(n) for n in sorted(b.getNuclides())} for b in members]
    if before!=after: issues.append(("members-changed",))
    ws=[bc.getWeight(b) for b in members]; W=sum(ws)
    for n in rnd.sample(sorted(members[0].getNuclides()),6):
        vals=[b.getNumberDensity(n) for b in members]
        exp=sum(w*v for w,v in zip(ws,vals))/W
        got=rep.getNumberDensity(n)
        if not close(got,exp,1e-8): issues.append(("avg",n,got,exp,len(members),wp)); break
        if not (min(vals)-1e-15<=got<=max(vals)+1e-15): issues.append(("convex",n))
    # median
    mc=xg.MedianBlockCollection(allNucs); mc.weightingParam=wp
    for b in members: mc.append(b)
    mb=mc._getMedianBlock()
    if mb not in members: issues.append(("median-not-member",))
    keyed=sorted((b.p.percentBu*mc.getWeight(b), b.getName()) for b in members)
    if (mb.p.percentBu*mc.getWeight(mb), mb.getName())!=keyed[len(keyed)//2]: issues.append(("median-rank",))
print("C20 issues:", len(issues))
for i in issues[:8]: print(i)
