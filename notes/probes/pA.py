import os, copy, random, tempfile
import numpy as np
from armi import configure
import armi
if not armi.isConfigured(): configure()
from armi.reactor.tests import test_reactors
from armi.tests import TEST_ROOT
from armi.reactor.flags import Flags
from armi.reactor.converters import uniformMesh
from armi.reactor import parameters
o, r = test_reactors.loadTestReactor(TEST_ROOT)
core=r.core
# F5: unequal block areas
a=copy.deepcopy(core.getFirstAssembly(Flags.FUEL))
b=a[1]
ic=b.getComponent(Flags.INTERCOOLANT) if b.getComponent(Flags.INTERCOOLANT) else None
print("blocks comps:", [c.name for c in b])
duct=b.getComponent(Flags.DUCT)
# remove the derived-shape coolant from one block so its total area shrinks
cool=b.getComponent(Flags.COOLANT, exact=True)
b.remove(cool)
print("F5 areas:", [round(x.getArea(),3) for x in a][:4], "| a.getVolume", round(a.getVolume(),3), "sum blocks", round(sum(x.getVolume() for x in a),3))
# F8: negative peak
a2=core.getFirstAssembly(Flags.FUEL)
peakNames=[p.name for p in a2[0].p.paramDefs if p.atLocation(parameters.ParamLocation.MAX)]
print("peak params:", peakNames[:8])
pn=peakNames[0]
for bb in a2: bb.p[pn]=-5.0-bb.spatialLocator.k
pm=uniformMesh.ParamMapper([], [pn], a2[0])
mesh=[bb.p.ztop for bb in a2]
new=uniformMesh.UniformMeshGeometryConverter.makeAssemWithUniformMesh(a2, mesh[1::2]+([mesh[-1]] if mesh[-1] not in mesh[1::2] else []), paramMapper=pm, mapNumberDensities=False)
print("F8 source", [bb.p[pn] for bb in a2][:4], "-> dest", [nb.p[pn] for nb in new][:3])
