import os, random, itertools
import numpy as np
from armi import configure
import armi
if not armi.isConfigured(): configure()
from armi.reactor.converters.uniformMesh import UniformMeshGenerator
from armi.utils.mathematics import average1DWithinTolerance, resampleStepwise
rnd=random.Random(7)
gen=UniformMeshGenerator(None, minimumMeshSize=None)
issues=[]; rejected=0; ok=0
for trial in range(3000):
    n=rnd.randint(1,9)
    pts=[rnd.randint(0,80)/4.0 for _ in range(n)]
    m=rnd.choice([0.25,0.5,1.0,2.0,3.5])
    anchors=[p for p in pts if rnd.random()<0.3]
    if rnd.random()<0.2: anchors.append(rnd.randint(0,80)/4.0)  # anchor not among candidates
    pref=rnd.choice(["bottom","top"])
    try:
        out=gen._filterMesh(list(pts), m, list(anchors), preference=pref)
    except ValueError as e:
        rejected+=1
        # should be because two anchors (present in pts) closer than m
        A=sorted(set(a for a in anchors if a in pts))
        if not any(abs(x-y)<m for x,y in zip(A,A[1:])): issues.append(("spurious-reject",pts,m,anchors,pref))
        continue
    ok+=1
    if out!=sorted(set(out)): issues.append(("not-strict",out))
    if not set(out)<=set(pts): issues.append(("not-subset",))
    if any(b-a<m for a,b in zip(out,out[1:])): issues.append(("gap",pts,m,anchors,pref,out))
    for a in anchors:
        if a in pts and a not in out: issues.append(("anchor-lost",pts,m,anchors,pref,out)); break
    A=sorted(set(a for a in anchors if a in pts))
    # if anchors are all >= m apart, must succeed (it did)
print("filterMesh: ok",ok,"rejected",rejected,"issues",len(issues)); print(issues[:4])
# resampleStepwise list inputs: sum conserved / avg is mean when xout spans xin
iss2=[]
for trial in range(3000):
    n=rnd.randint(1,6)
    xin=sorted(set([0.0]+[rnd.randint(1,40)/2.0 for _ in range(n)]))
    if len(xin)<2: continue
    yin=[rnd.randint(-20,20)/2.0 for _ in range(len(xin)-1)]
    k=rnd.randint(0,5)
    inner=sorted(set(rnd.randint(1,int(xin[-1]*2)-1)/2.0 for _ in range(k))) if xin[-1]>=1 else []
    xout=[xin[0]]+[x for x in inner if xin[0]<x<xin[-1]]+[xin[-1]]
    s=resampleStepwise(xin,list(yin),xout,avg=False)
    if abs(sum(s)-sum(yin))>1e-9: iss2.append(("sum",xin,yin,xout,s))
    a=resampleStepwise(xin,list(yin),xout,avg=True)
    tot_in=sum(y*(b-a_) for y,a_,b in zip(yin,xin,xin[1:]))
    tot_out=sum(y*(b-a_) for y,a_,b in zip(a,xout,xout[1:]))
    if abs(tot_in-tot_out)>1e-9: iss2.append(("avg-integral",xin,yin,xout,a))
print("resampleStepwise issues",len(iss2)); print(iss2[:3])
import collections
print(collections.Counter(i[0] for i in iss2))
# classify sum issues: does any output cell lie strictly inside an input cell?
def interior(xin,xout):
    for a,b in zip(xout,xout[1:]):
        for p,q in zip(xin,xin[1:]):
            if p<a and b<q: return True
    return False
print("sum issues with interior cell:", sum(1 for i in iss2 if i[0]=="sum" and interior(i[1],i[3])), "without:", sum(1 for i in iss2 if i[0]=="sum" and not interior(i[1],i[3])))
ex=[i for i in iss2 if i[0]=="sum" and not interior(i[1],i[3])][:2]; print(ex)
ex=[i for i in iss2 if i[0]=="avg-integral"][:2]; print(ex)
