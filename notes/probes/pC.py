import random, math
from armi import configure
import armi
if not armi.isConfigured(): configure()
from armi.reactor import components, blocks
from armi.reactor.components import basicShapes
rnd=random.Random(2)
issues=[]
def close(a,b,t=1e-12): return abs(a-b)<=t*max(1,abs(a),abs(b))
for trial in range(200):
    T0=25.0
    fuel=components.Circle("fuel","UZr",T0,rnd.uniform(300,700),od=0.8,id=0.0,mult=7)
    clad=components.Circle("clad","HT9",T0,rnd.uniform(300,600),od=1.1,id=1.0,mult=7)
    bond=components.Circle("bond","Sodium",450,450,od="clad.id",id="fuel.od",mult="fuel.mult",components={"fuel":fuel,"clad":clad})
    # links follow current dims
    for _ in range(3):
        fuel.setTemperature(rnd.uniform(100,800)); clad.setTemperature(rnd.uniform(100,700))
        if not close(bond.getDimension("id"),fuel.getDimension("od")): issues.append(("link-id",))
        if not close(bond.getDimension("od"),clad.getDimension("id")): issues.append(("link-od",))
        if not close(bond.getDimension("mult"),fuel.getDimension("mult")): issues.append(("link-mult",))
        # dim = cold * factor
        f=fuel.getThermalExpansionFactor()
        if not close(fuel.getDimension("od"), fuel.getDimension("od",cold=True)*f): issues.append(("dimfactor",))
        if fuel.getDimension("mult")!=7: issues.append(("mult-expands",))
    # hot set readback
    v=rnd.uniform(0.5,1.0)
    fuel.setDimension("od",v,cold=False)
    if not close(fuel.getDimension("od"),v,1e-12): issues.append(("hot-readback",fuel.getDimension("od"),v))
    # fluid keeps dims
    d0=bond.getDimension("mult")
    na=components.Circle("na","Sodium",450,450,od=2.0,id=1.5,mult=1)
    a0=na.getArea(); na.setTemperature(600); 
    if not close(na.getDimension("od"),2.0) or not close(na.getArea(),a0): issues.append(("fluid",))
print("C03 link/dim issues",len(issues),issues[:4])
