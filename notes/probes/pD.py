import os, random
import numpy as np
from armi import configure
import armi
if not armi.isConfigured(): configure()
from armi.reactor.tests import test_reactors
from armi.tests import TEST_ROOT
from armi.reactor.flags import Flags
from armi.nucDirectory import elements, nuclideBases as nb
o, r = test_reactors.loadTestReactor(TEST_ROOT)
rnd=random.Random(3)
issues=[]
def close(a,b,t=1e-9): return abs(a-b)<=t*max(1,abs(a),abs(b))
# keep-set semantics
for trial in range(40):
    root=rnd.choice([r.core]+r.core.getAssemblies()[:5]+r.core.getBlocks()[:8])
    blocks=[root] if root.__class__.__name__.endswith("Block") else root.getChildren(deep=True, predicate=lambda c: c.__class__.__name__.endswith("Block"))[:6]
    if not blocks: continue
    pdefs=blocks[0].p.paramDefs
    names=["power","flux","pdens","percentBu","buRate"]
    keep=set(rnd.sample(names, rnd.randint(0,3)))
    keepDefs=[pdefs[n] for n in keep]
    before={(id(b),n):b.p[n] for b in blocks for n in names}
    setv={}
    with root.retainState(keepDefs):
        for b in blocks:
            for n in rnd.sample(names,3):
                v=rnd.random()+1; b.p[n]=v; setv[(id(b),n)]=v
    for b in blocks:
        for n in names:
            k=(id(b),n)
            exp = setv[k] if (n in keep and k in setv) else before[k]
            if b.p[n]!=exp: issues.append(("keep",n,n in keep,k in setv,b.p[n],exp))
print("keep-set issues",len(issues),issues[:3])
# element / list specifiers
iss=[]
for b in rnd.sample(r.core.getBlocks(Flags.FUEL),10):
    nucs=sorted(b.getNuclides())
    for sym in ("U","PU","ZR","FE","NA","MO"):
        members=[n for n in nucs if nb.byName[n].element is not None and getattr(nb.byName[n],'element').symbol==sym and not isinstance(nb.byName[n], nb.NaturalNuclideBase)] if True else []
        # composites expands element to all isotopes known; natural element name itself may be present (e.g. 'FE'?)
        direct=[n for n in nucs if n==sym]
        exp=sum(b.getMass(n) for n in (direct if direct else members))
        got=b.getMass(sym)
        if not close(got,exp,1e-9): iss.append(("elem",b.name,sym,got,exp,direct,members[:3]))
    sel=rnd.sample(nucs,3)
    if not close(b.getMass(sel), sum(b.getMass(n) for n in sel)): iss.append(("list",))
    if not close(b.getMass(["U235","U235"]), b.getMass("U235")): iss.append(("dup-in-list", b.getMass(["U235","U235"]), b.getMass("U235")))
print("specifier issues",len(iss),iss[:3])
