def ero (i j : Int) : Int × Int × Int :=
    if i > 0 ∧ j ≥ 0 then (0, i + j + 1, j)
    else if i ≤ 0 ∧ j > -i then (1, j + 1, -i)
    else if i < 0 ∧ j > 0 then (2, -i + 1, -j - i)
    else if i < 0 then (3, -i - j + 1, -j)
    else if i ≥ 0 ∧ j < -i then (4, -j + 1, i)
    else (5, i + 1, i + j)

def toRingPos (i j : Int) : Int × Int :=
  let (edge, ring, offset) := ero i j
  (ring, 1 + edge * (ring - 1) + offset)

def ijOfEdge (edge r offset : Int) : Option (Int × Int) :=
    if edge = 0 then some (r - offset, offset)
    else if edge = 1 then some (-offset, r)
    else if edge = 2 then some (-r, r - offset)
    else if edge = 3 then some (offset - r, -offset)
    else if edge = 4 then some (offset, -r)
    else if edge = 5 then some (r, offset - r)
    else none

def fromRingPos (ring position : Int) : Option (Int × Int) :=
  let r := ring - 1
  let pos := position - 1
  if r = 0 then (if pos ≠ 0 then none else some (0, 0))
  else ijOfEdge (pos / r) r (pos % r)

theorem divmod_unique (e r o : Int) (h0 : 0 ≤ o) (h1 : o < r) :
    (e * r + o) / r = e ∧ (e * r + o) % r = o := by
  have hr : r ≠ 0 := by omega
  constructor
  · rw [Int.add_comm, Int.add_mul_ediv_right _ _ hr, Int.ediv_eq_zero_of_lt h0 h1]; omega
  · rw [Int.add_comm, Int.add_mul_emod_self_right, Int.emod_eq_of_lt h0 h1]

/-- characterisation of the (edge, ring, offset) triple -/
theorem ero_spec (i j : Int) :
    let e := (ero i j).1; let r := (ero i j).2.1 - 1; let o := (ero i j).2.2
    0 ≤ e ∧ e ≤ 5 ∧ 0 ≤ r ∧ 0 ≤ o ∧ (r = 0 → i = 0 ∧ j = 0 ∧ o = 0) ∧ (r ≠ 0 → o < r)
    ∧ ijOfEdge e r o = some (i, j) ∨ (r = 0 ∧ i = 0 ∧ j = 0) := by
  unfold ero
  repeat' split
  all_goals simp_all [ijOfEdge]
  all_goals omega

theorem left_inv (i j : Int) : fromRingPos (toRingPos i j).1 (toRingPos i j).2 = some (i, j) := by
  sorry
