import Mathlib.Data.Nat.Sqrt
import Mathlib.Tactic.Linarith
import Mathlib.Tactic.Ring

def totalUpTo (r : Nat) : Nat := 1 + 3 * r * (r - 1)

/-- ceil(0.5*(1+sqrt(x))) for x ≥ 1 computed with integer sqrt -/
def halfCeil (x : Nat) : Nat :=
  let s := Nat.sqrt x
  if s * s = x then (s + 2) / 2 else (s + 1) / 2 + 1

def numRings (n : Nat) : Nat :=
  if n = 0 then 0 else halfCeil (1 + (4 * (n - 1)) / 3)

#eval (List.range 40).map numRings
#eval (List.range 40).all (fun n => n = 0 ∨ (n ≤ totalUpTo (numRings n) ∧ (numRings n ≤ 1 ∨ totalUpTo (numRings n - 1) < n)))

-- key arithmetic fact: r is enough rings for n  ↔  (2r-1)^2 ≥ 1 + (4(n-1))/3   (floor harmless)
theorem enough_iff (r m : Nat) (hr : 1 ≤ r) :
    m ≤ 3 * r * (r - 1) ↔ 1 + (4 * m) / 3 ≤ (2 * r - 1) * (2 * r - 1) := by
  obtain ⟨k, rfl⟩ : ∃ k, r = k + 1 := ⟨r - 1, by omega⟩
  have h1 : (2 * (k + 1) - 1) * (2 * (k + 1) - 1) = 4 * (k * (k + 1)) + 1 := by
    have : 2 * (k + 1) - 1 = 2 * k + 1 := by omega
    rw [this]; ring
  have h2 : 3 * (k + 1) * (k + 1 - 1) = 3 * (k * (k + 1)) := by
    have : k + 1 - 1 = k := by omega
    rw [this]; ring
  rw [h1, h2]
  generalize k * (k + 1) = t
  omega
#print axioms enough_iff
