import Mathlib.Tactic.Linarith
import Mathlib.Tactic.Ring
import Mathlib.Data.Rat.Defs
import Mathlib.Algebra.Order.Field.Rat

/-- clip x into [lo, hi] -/
def clip (lo hi x : Rat) : Rat := max lo (min hi x)

/-- overlap of [lo,hi] with [p,q] as the code computes it -/
def overlap (lo hi p q : Rat) : Rat := max 0 (min hi q - max lo p)

theorem overlap_eq_clip (lo hi p q : Rat) (h1 : lo ≤ hi) (h2 : p ≤ q) :
    overlap lo hi p q = clip lo hi q - clip lo hi p := by
  unfold overlap clip
  rcases le_total hi q with a | a <;> rcases le_total hi p with b | b <;>
  rcases le_total lo p with c | c <;> rcases le_total lo q with d | d <;>
  simp [max_def, min_def] <;> (repeat' split) <;> linarith

/-- sum of overlaps of [lo,hi] with consecutive cells of a mesh given by its boundary list -/
def sumOverlap (lo hi : Rat) : List Rat → Rat
  | [] => 0
  | [_] => 0
  | p :: q :: t => overlap lo hi p q + sumOverlap lo hi (q :: t)

def sortedB : List Rat → Prop
  | [] => True
  | [_] => True
  | p :: q :: t => p ≤ q ∧ sortedB (q :: t)

theorem sumOverlap_tele (lo hi : Rat) (h : lo ≤ hi) :
    ∀ (l : List Rat) (a : Rat), sortedB (a :: l) →
      sumOverlap lo hi (a :: l) = clip lo hi ((a :: l).getLast (by simp)) - clip lo hi a
  | [], a, _ => by simp [sumOverlap]
  | q :: t, a, hs => by
    obtain ⟨h1, h2⟩ := hs
    have ih := sumOverlap_tele lo hi h t q h2
    simp only [sumOverlap, List.getLast_cons_cons]
    rw [overlap_eq_clip lo hi a q h h1]
    have : (q :: t).getLast (by simp) = (q :: t).getLast (by simp) := rfl
    linarith [ih]

#print axioms sumOverlap_tele
