-- spike: bidirectional record programs
abbrev Bytes := List UInt8

structure Codec (β : Type) where
  enc : β → Bytes
  dec : Bytes → Option (β × Bytes)
  ok  : β → Prop
  rt  : ∀ v rest, ok v → dec (enc v ++ rest) = some (v, rest)

inductive RW (α : Type) : Type 1 where
  | done : α → RW α
  | prim {β : Type} (c : Codec β) (v : β) (k : β → RW α) : RW α

namespace RW
def write {α} : RW α → Bytes × α
  | done a => ([], a)
  | prim c v k => let (bs, a) := write (k v); (c.enc v ++ bs, a)

def read {α} : RW α → Bytes → Option (α × Bytes)
  | done a, bs => some (a, bs)
  | prim c _ k, bs =>
    match c.dec bs with
    | none => none
    | some (x, rest) => read (k x) rest

/-- all values actually written satisfy their codec's well-formedness -/
def WF {α} : RW α → Prop
  | done _ => True
  | prim c v k => c.ok v ∧ WF (k v)

theorem roundtrip {α} (p : RW α) (h : WF p) (rest : Bytes) :
    read p ((write p).1 ++ rest) = some ((write p).2, rest) := by
  induction p with
  | done a => simp [read, write]
  | prim c v k ih =>
    obtain ⟨hv, hk⟩ := h
    simp only [write, read, List.append_assoc]
    rw [c.rt v _ hv]
    exact ih v hk
end RW
#print axioms RW.roundtrip
