-- spike: arena tree invariants
structure St where
  parent : Nat → Option Nat
  kids   : Nat → List Nat

def St.Inv (s : St) : Prop :=
  (∀ p c, c ∈ s.kids p → s.parent c = some p) ∧
  (∀ c p, s.parent c = some p → c ∈ s.kids p) ∧
  (∀ p, (s.kids p).Nodup)

def St.add (s : St) (p c : Nat) : St :=
  { parent := fun x => if x = c then some p else s.parent x
    kids   := fun x => if x = p then s.kids p ++ [c] else s.kids x }

def St.remove (s : St) (p c : Nat) : St :=
  { parent := fun x => if x = c then none else s.parent x
    kids   := fun x => if x = p then (s.kids p).erase c else s.kids x }

theorem add_inv (s : St) (p c : Nat) (h : s.Inv) (hc : s.parent c = none) :
    (s.add p c).Inv := by
  obtain ⟨h1, h2, h3⟩ := h
  have hnot : ∀ q, c ∉ s.kids q := by
    intro q hq; have := h1 q c hq; simp [hc] at this
  refine ⟨?_, ?_, ?_⟩
  · intro q x hx
    simp only [St.add] at hx ⊢
    by_cases hq : q = p
    · subst hq; simp at hx
      rcases hx with hx | hx
      · have := h1 q x hx
        by_cases hxc : x = c
        · subst hxc; simp
        · simp [hxc, this]
      · subst hx; simp
    · simp [hq] at hx
      have := h1 q x hx
      by_cases hxc : x = c
      · subst hxc; exact absurd hx (hnot q)
      · simp [hxc, this]
  · intro x q hx
    simp only [St.add] at hx ⊢
    by_cases hxc : x = c
    · subst hxc; simp at hx; subst hx; simp
    · simp [hxc] at hx
      have := h2 x q hx
      by_cases hq : q = p
      · subst hq; simp [this]
      · simp [hq, this]
  · intro q
    simp only [St.add]
    by_cases hq : q = p
    · subst hq; simp
      rw [List.nodup_append]
      refine ⟨h3 q, by simp, ?_⟩
      intro a ha b hb; simp at hb; subst hb; intro hab; subst hab; exact hnot q ha
    · simp [hq, h3 q]

theorem remove_inv (s : St) (p c : Nat) (h : s.Inv) (hc : c ∈ s.kids p) :
    (s.remove p c).Inv := by
  obtain ⟨h1, h2, h3⟩ := h
  have hpc := h1 p c hc
  refine ⟨?_, ?_, ?_⟩
  · intro q x hx
    simp only [St.remove] at hx ⊢
    by_cases hq : q = p
    · subst hq; simp at hx
      have hx' : x ∈ s.kids q := List.mem_of_mem_erase hx
      have hne : x ≠ c := by
        intro e; subst e; exact (List.Nodup.not_mem_erase (h3 q)) hx
      simp [hne, h1 q x hx']
    · simp [hq] at hx
      have := h1 q x hx
      have hne : x ≠ c := by
        intro e; subst e; rw [hpc] at this; simp at this; exact hq this.symm
      simp [hne, this]
  · intro x q hx
    simp only [St.remove] at hx ⊢
    by_cases hxc : x = c
    · subst hxc; simp at hx
    · simp [hxc] at hx
      have := h2 x q hx
      by_cases hq : q = p
      · subst hq; simp; exact (List.mem_erase_of_ne hxc).mpr this
      · simp [hq, this]
  · intro q
    simp only [St.remove]
    by_cases hq : q = p
    · subst hq; simp; exact List.Nodup.erase _ (h3 q)
    · simp [hq, h3 q]
#print axioms add_inv
#print axioms remove_inv
