"""scratch: run only the source-tie part of a check (same Ctx / decide as ./check)"""
import sys, os, types, time, json
sys.path.insert(0, "/verif")
from harness import common, srctie
prop = sys.argv[1]
ctx = common.Ctx(prop, "quick", int(os.environ.get("VERIF_SEED", "0")))
ctx.audit_result = {"theorems": [], "bad": [], "scan": []}
t0 = time.time()
try:
    common.import_armi()
    srctie.run(ctx, prop)
except common.Infra as e:
    print("INFRA-FAILURE", e); sys.exit(2)
mod = types.SimpleNamespace()
v = common.decide(ctx, mod)
for e in ctx.extra.get("source_tie", []):
    print("  ", e["function"], "->", e["status"][:150], ("| " + e.get("broken", "")) if e.get("broken") else "")
for f in ctx.failures[:6]:
    print("   FAIL", f.key, json.dumps(f.case), "observed", f.observed, "expected", f.expected)
print(f"violations={v} wall={time.time()-t0:.1f}s")
sys.exit(1 if v else 0)
