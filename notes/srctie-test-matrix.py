import subprocess, sys, os, re, json
HX="armi/reactor/grids/hexagonal.py"; HU="armi/utils/hexagon.py"; CA="armi/reactor/grids/cartesian.py"; TZ="armi/reactor/grids/thetarz.py"
CASES = [
 # ---- behaviour-preserving rewrites (expect: no violation)
 ("R1 nested-if reorder indicesToRingPos", "C07", HX, '''        if i > 0 and j >= 0:
            edge = 0
            ring = i + j + 1
            offset = j
        elif i <= 0 and j > -i:
            edge = 1
            ring = j + 1
            offset = -i
        elif i < 0 and j > 0:
            edge = 2
            ring = -i + 1
            offset = -j - i
        elif i < 0:
            edge = 3
            ring = -i - j + 1
            offset = -j
        elif i >= 0 and j < -i:
            edge = 4
            ring = -j + 1
            offset = i
        else:
            edge = 5
            ring = i + 1
            offset = i + j
''', '''        if i > 0:
            if j >= 0:
                edge, ring, offset = 0, i + j + 1, j
            elif j < -i:
                edge, ring, offset = 4, 1 - j, i
            else:
                edge, ring, offset = 5, i + 1, i + j
        elif i == 0:
            if j > 0:
                edge, ring, offset = 1, j + 1, 0
            elif j < 0:
                edge, ring, offset = 4, 1 - j, 0
            else:
                edge, ring, offset = 5, 1, 0
        else:
            if j > -i:
                edge, ring, offset = 1, j + 1, -i
            elif j > 0:
                edge, ring, offset = 2, 1 - i, -(i + j)
            else:
                edge, ring, offset = 3, 1 - i - j, -j
'''),
 ("R2 algebraic rearrangement indicesToRingPos tail", "C07", HX, '''        positionBase = 1 + edge * (ring - 1)
        return ring, positionBase + offset
''', '''        ringIndex = ring - 1
        return ringIndex + 1, offset + ringIndex * edge + 1
'''),
 ("R3 elif->nested if + early returns in _indicesAndEdge", "C07", HX, '''        if edge == 0:
            i = ring - offset
            j = offset
        elif edge == 1:
            i = -offset
            j = ring
        elif edge == 2:
            i = -ring
            j = ring - offset
        elif edge == 3:
            i = offset - ring
            j = -offset
        elif edge == 4:
            i = offset
            j = -ring
        elif edge == 5:
            i = ring
            j = offset - ring
        else:
            raise ValueError(f"Edge {edge} is invalid. From ring {ring}, pos {pos}")

        return i, j, edge
''', '''        if edge < 0 or edge > 5:
            raise ValueError(f"Edge {edge} is invalid. From ring {ring}, pos {pos}")
        if edge < 3:
            if edge == 0:
                return ring - offset, offset, edge
            else:
                if edge == 1:
                    return -offset, ring, edge
                return -ring, ring - offset, edge
        else:
            if edge == 5:
                return ring, offset - ring, 5
            if edge == 3:
                return offset - ring, -offset, 3
            return offset, -ring, edge
'''),
 ("R4 numPositionsInRing as if/return", "C07", HU, '''    return (ring - 1) * 6 if ring != 1 else 1
''', '''    if ring == 1:
        return 1
    return 6 * ring - 6
'''),
 ("R5 totalPositionsUpToRing expanded polynomial", "C07", HU, '''    return 1 + 3 * ring * (ring - 1)
''', '''    ringSquared = ring**2
    return 3 * ringSquared - 3 * ring + 1
'''),
 ("R6 isInFirstThird with locals and conditional expression", "C08", HX, '''        maxPos1 = ring + ring // 2 - 1
        maxPos2 = maxPosTotal - ring // 2 + 1
        if ring % 2:
            # Odd ring; upper edge assem typically not included.
            if includeTopEdge:
                maxPos1 += 1
        else:
            # Even ring; upper edge assem included.
            maxPos2 += 1

        return bool(pos <= maxPos1 or pos >= maxPos2)
''', '''        half, odd = divmod(ring, 2)
        isOdd = odd == 1
        maxPos1 = ring + half - 1 + (1 if isOdd and includeTopEdge else 0)
        maxPos2 = maxPosTotal - half + (1 if isOdd else 2)
        if pos <= maxPos1:
            return True
        return pos >= maxPos2
'''),
 ("R7 overlapsWhichSymmetryLine early returns, reordered", "C08", HX, '''        if i == 0 and j == 0:
            symmetryLine = BOUNDARY_CENTER
        elif i > 0 and i == -2 * j:
            # edge 1: 1/3 symmetry line (bottom horizontal side in 1/3 core view, theta = 0)
            symmetryLine = BOUNDARY_0_DEGREES
        elif i == j and i > 0 and j > 0:
            # edge 2: 1/6 symmetry line (bisects 1/3 core view, theta = pi/3)
            symmetryLine = BOUNDARY_60_DEGREES
        elif j == -2 * i and j > 0:
            # edge 3: 1/3 symmetry line (left oblique side in 1/3 core view, theta = 2*pi/3)
            symmetryLine = BOUNDARY_120_DEGREES
        else:
            symmetryLine = None

        return symmetryLine
''', '''        if j > 0:
            if i == j:
                return BOUNDARY_60_DEGREES
            if 2 * i + j == 0:
                return BOUNDARY_120_DEGREES
            return None
        if i + 2 * j == 0:
            return BOUNDARY_0_DEGREES if i > 0 else BOUNDARY_CENTER
        return None
'''),
 ("R8 _getSymmetricIdenticalsThird via local s", "C08", HX, '''        identicals = [(-i - j, i), (j, -i - j)]
        return identicals
''', '''        s = -(i + j)
        return [(s, i), (j, s)]
'''),
 ("R9 cartesian getPositionsInRing (as refactor C07-2)", "C07", CA, '''        if ring == 1:
            ringPositions = 1 if self._isThroughCenter() else 4
        else:
            ringPositions = (ring - 1) * 8
            if not self._isThroughCenter():
                ringPositions += 4
        return ringPositions
''', '''        throughCenter = self._isThroughCenter()
        if ring == 1:
            return 1 if throughCenter else 4

        # each ring outwards has 8 more cells than the one before
        return (ring - 1) * 8 + (0 if throughCenter else 4)
'''),
 ("R10 indicesToRingPos as while loop (refactor C07-1 style)", "C07", HX, '''        if i > 0 and j >= 0:
            edge = 0
            ring = i + j + 1
            offset = j
        elif i <= 0 and j > -i:
            edge = 1
            ring = j + 1
            offset = -i
        elif i < 0 and j > 0:
            edge = 2
            ring = -i + 1
            offset = -j - i
        elif i < 0:
            edge = 3
            ring = -i - j + 1
            offset = -j
        elif i >= 0 and j < -i:
            edge = 4
            ring = -j + 1
            offset = i
        else:
            edge = 5
            ring = i + 1
            offset = i + j

        positionBase = 1 + edge * (ring - 1)
        return ring, positionBase + offset
''', '''        edge = 0
        while edge < 5 and not (i > 0 and j >= 0):
            i, j = i + j, -i
            edge += 1

        ringIndex = i + j
        return ringIndex + 1, 1 + edge * ringIndex + j
'''),
 ("R11 getCumulativeNodeNum via steps + len (refactor C15-1)", "C15", "armi/utils/__init__.py", """    nodesPerCycle = getNodesPerCycle(cs)
    return sum(nodesPerCycle[:cycle]) + node
""", """    stepsInEarlierCycles = getBurnSteps(cs)[:cycle]
    # every cycle holds one more node than it has steps
    return sum(stepsInEarlierCycles) + len(stepsInEarlierCycles) + node
"""),
 ("R12 getPreviousTimeNode restructured", "C15", "armi/utils/__init__.py", """    if node != 0:
        return (cycle, node - 1)
    else:
        nodesPerCycle = getNodesPerCycle(cs)
        nodesInLastCycle = nodesPerCycle[cycle - 1]
        indexOfLastNode = nodesInLastCycle - 1  # zero based indexing for nodes
        return (cycle - 1, indexOfLastNode)
""", """    if node == 0:
        previousCycle = cycle - 1
        return (previousCycle, getNodesPerCycle(cs)[previousCycle] - 1)
    return (cycle, node - 1)
"""),
 ("E10 getCumulativeNodeNum off by one from cycle 20", "C15", "armi/utils/__init__.py", """    return sum(nodesPerCycle[:cycle]) + node
""", """    return sum(nodesPerCycle[:cycle]) + node - (1 if cycle > 9 else 0)
"""),
 ("E11 getPreviousTimeNode looks two cycles back from cycle 7", "C15", "armi/utils/__init__.py", """        nodesInLastCycle = nodesPerCycle[cycle - 1]
""", """        nodesInLastCycle = nodesPerCycle[cycle - 1 if cycle < 7 else cycle - 2]
"""),
 ("R13 getMcnpId restructured (single offset local)", "C19", "armi/nucDirectory/nuclideBases.py", """        if z == 95 and a == 242:
            # Am242 has special rules
            if self.state != 1:
                # MCNP uses base state for the common metastable state AM242M, so AM242M is just 95242
                # AM242 base state is called 95642 (+400) in mcnp.
                # see https://mcnp.lanl.gov/pdf_files/la-ur-08-1999.pdf
                # New ACE-Formatted Neutron and Proton Libraries Based on ENDF/B-VII.0
                a += 300 + 100 * max(self.state, 1)
        elif self.state > 0:
            # in general mcnp adds 300 + 100*m to the Z number for metastables. see above source
            a += 300 + 100 * self.state
""", """        isAm242 = z == 95 and a == 242
        if isAm242 and self.state == 1:
            offset = 0
        elif isAm242:
            offset = 400 if self.state < 1 else 300 + self.state * 100
        elif self.state > 0:
            offset = 100 * (3 + self.state)
        else:
            offset = 0
        a = a + offset
"""),
 ("E12 getMcnpId: metastable offset 300+100m -> 300+10m for heavy z", "C19", "armi/nucDirectory/nuclideBases.py", """            a += 300 + 100 * self.state
""", """            a += 300 + (100 if z < 100 else 10) * self.state
"""),
 ("R14 getCycleNodeFromCumulativeNode: loop body reordered, local for the cycle length", "C15", "armi/utils/__init__.py", """    cNodes = 0  # cumulative nodes
    for i in range(len(nodesPerCycle)):
        cNodes += nodesPerCycle[i]
        if timeNodeNum < cNodes:
            return (i, timeNodeNum - (cNodes - nodesPerCycle[i]))
""", """    cNodes = 0  # cumulative nodes
    for i in range(len(nodesPerCycle)):
        nodesThisCycle = nodesPerCycle[i]
        if timeNodeNum < cNodes + nodesThisCycle:
            return (i, timeNodeNum - cNodes)
        cNodes = cNodes + nodesThisCycle
"""),
 ("E13 getCycleNodeFromCumulativeNode: < became <= (cycle boundary)", "C15", "armi/utils/__init__.py", """        if timeNodeNum < cNodes:
""", """        if timeNodeNum <= cNodes:
"""),
 ("E14 getCycleNodeFromCumulativeStep: drops the -1 in cycles after the 12th", "C15", "armi/utils/__init__.py", """        if timeStepNum <= cSteps:
            return (i, timeStepNum - (cSteps - stepsPerCycle[i]) - 1)
""", """        if timeStepNum <= cSteps:
            return (i, timeStepNum - (cSteps - stepsPerCycle[i]) - (1 if i < 11 else 0))
"""),
 ("R15 indicesToRingPos: ring computed as hex distance with abs/max", "C07", HX, """        positionBase = 1 + edge * (ring - 1)
""", """        ring = max(abs(i), abs(j), abs(i + j)) + 1
        positionBase = 1 + edge * (ring - 1)
"""),
 ("R16 totalPositionsUpToRing as a running sum over rings (loop)", "C07", HU, """    return 1 + 3 * ring * (ring - 1)
""", """    total = 1
    for k in range(2, ring + 1):
        total += 6 * (k - 1)
    return total
"""),
 # ---- property-breaking edits (expect: violation with an input)
 ("E1 off-by-one ring on edge 2 beyond ring 60", "C07", HX, '''            edge = 2
            ring = -i + 1
''', '''            edge = 2
            ring = -i + 1 if i > -60 else -i + 2
'''),
 ("E2 wrong branch for edge 4 at radius >= 200", "C07", HX, '''        elif edge == 4:
            i = offset
            j = -ring
''', '''        elif edge == 4:
            i = offset
            j = -ring if ring < 200 else 1 - ring
'''),
 ("E3 swapped // and % in isInFirstThird", "C08", HX, '''        maxPos2 = maxPosTotal - ring // 2 + 1
''', '''        maxPos2 = maxPosTotal - ring % 2 + 1
'''),
 ("E4 60-degree line class lost beyond i >= 1000", "C08", HX, '''        elif i == j and i > 0 and j > 0:
''', '''        elif i == j and 0 < i < 1000 and j > 0:
'''),
 ("E5 totalPositionsUpToRing drifts from ring 4000", "C07", HU, '''    return 1 + 3 * ring * (ring - 1)
''', '''    return 1 + 3 * ring * (ring - 1) + ring // 4000
'''),
 ("E6 third-core equivalents: second image wrong sign far out", "C08", HX, '''        identicals = [(-i - j, i), (j, -i - j)]
''', '''        identicals = [(-i - j, i), (j, -i - j if abs(i) < 500 else i - j)]
'''),
 ("E7 numPositionsInRing 6(r-1) -> 6r-5 for r > 350", "C07", HU, '''    return (ring - 1) * 6 if ring != 1 else 1
''', '''    return ((ring - 1) * 6 if ring <= 350 else 6 * ring - 5) if ring != 1 else 1
'''),
 ("E8 neighbour list: two entries swapped (order not CCW)", "C07", HX, '''            (i - 1, j + 1, k),
            (i - 1, j, k),
''', '''            (i - 1, j, k),
            (i - 1, j + 1, k),
'''),
 ("E9 thetarz getRingPos swapped components", "C07", TZ, '''        return (indices[1] + 1, indices[0] + 1)
''', '''        return (indices[0] + 1, indices[1] + 1)
'''),
]
only = sys.argv[1:] 
rows = []
for name, prop, rel, old, new in CASES:
    if only and not any(name.startswith(o) for o in only):
        continue
    subprocess.run(["rm", "-rf", "/tmp/srctie/armi"]); subprocess.run(["cp", "-r", "/repo/armi", "/tmp/srctie/armi"])
    src = open("/repo/" + rel).read()
    assert src.count(old) == 1, (name, src.count(old))
    open("/tmp/srctie/" + rel, "w").write(src.replace(old, new))
    env = dict(os.environ, ARMI_REPO="/tmp/srctie", PYTHONDONTWRITEBYTECODE="1")
    p = subprocess.run(["/venv/bin/python", "/tmp/srctie/run_only.py", prop], env=env, capture_output=True, text=True, cwd="/verif")
    out = p.stdout + p.stderr
    stat = [l.strip() for l in out.split("\n") if "->" in l and "proved" not in l.split("->")[1][:8] and "untranslatable: call of `math" not in l
            and "numRingsToHoldNumCells" not in l and "float literal" not in l and "`for` statement" not in l and "IndexLocation" not in l]
    fails = [l.strip() for l in out.split("\n") if l.strip().startswith("FAIL")][:2]
    wall = re.findall(r"wall=([\d.]+)s", out)
    rows.append((name, prop, p.returncode, stat, fails, wall[-1] if wall else "?"))
    print("=" * 100); print(name, "| exit", p.returncode, "| wall", wall[-1] if wall else "?")
    for l in stat: print("   ", l[:230])
    for l in fails: print("   ", l[:260])
    if p.returncode == 2: print(out[-1500:])
    sys.stdout.flush()
subprocess.run(["rm", "-rf", "/tmp/srctie/armi"]); subprocess.run(["cp", "-r", "/repo/armi", "/tmp/srctie/armi"])
