import subprocess, sys, os, re
XS="armi/physics/neutronics/crossSectionGroupManager.py"; CC="armi/nuclearDataIO/cccc/cccc.py"; DB="armi/bookkeeping/db/database.py"
HX="armi/reactor/grids/hexagonal.py"; CA="armi/reactor/grids/cartesian.py"
CASES = [
 ("R20 number-from-label via generator and explicit width arithmetic", "C20", XS,
  '''    return int("".join(["{:02d}".format(ord(si)) for si in xsTypeLabel]))
''', '''    codes = "".join("{:02d}".format(ord(ch)) for ch in xsTypeLabel)
    return int(codes)
'''),
 ("R21 number-from-label via str() and manual zero padding", "C20", XS,
  '''    return int("".join(["{:02d}".format(ord(si)) for si in xsTypeLabel]))
''', '''    return int("".join([("0" + str(ord(si))) if ord(si) < 10 else str(ord(si)) for si in xsTypeLabel]))
'''),
 ("R22 label-from-number: split computed first, arithmetic test on the number", "C20", XS,
  '''        if len(digits) > 3 or (len(digits) == 3 and digits[0] != "1"):
            # two characters. Codes starting with 1 (100-122, lower case) have three digits
            split = 3 if digits[0] == "1" else 2
            return chr(int(digits[:split])) + chr(int(digits[split:]))
''', '''        numDigits = len(digits)
        leadingOne = digits[0] == "1"
        if numDigits > 3 or (numDigits == 3 and not leadingOne):
            # two characters. Codes starting with 1 (100-122, lower case) have three digits
            split = 2
            if leadingOne:
                split = 3
            first = chr(int(digits[:split]))
            second = chr(int(digits[split:]))
            return first + second
'''),
 ("R23 label-from-number: branches reordered (single char first)", "C20", XS,
  '''        if len(digits) > 3 or (len(digits) == 3 and digits[0] != "1"):
            # two characters. Codes starting with 1 (100-122, lower case) have three digits
            split = 3 if digits[0] == "1" else 2
            return chr(int(digits[:split])) + chr(int(digits[split:]))
        elif xsTypeNumber < ord("A"):
            raise ValueError(
                f"Cannot convert invalid xsTypeNumber `{xsTypeNumber}` to char. "
                "The number must be >= 65 (corresponding to 'A')."
            )
        else:
            return chr(xsTypeNumber)
''', '''        twoChars = len(digits) > 3 or (len(digits) == 3 and digits[0] != "1")
        if not twoChars:
            if xsTypeNumber >= ord("A"):
                return chr(xsTypeNumber)
            raise ValueError(f"Cannot convert invalid xsTypeNumber `{xsTypeNumber}` to char.")
        split = 3 if digits[0] == "1" else 2
        return chr(int(digits[:split])) + chr(int(digits[split:]))
'''),
 ("E20 number-from-label: code reduced modulo 100 (lower case e..z collide with control codes)", "C20", XS,
  '''"{:02d}".format(ord(si))''', '''"{:02d}".format(ord(si) % 100)'''),
 ("E21 number-from-label: lower-case letters folded (ord(si) - 32 for z only)", "C20", XS,
  '''"{:02d}".format(ord(si))''', '''"{:02d}".format(ord(si) - (32 if si == "z" else 0))'''),
 ("E22 label-from-number: three-digit split only for six-digit numbers (lower-case first + upper-case second lost)", "C20", XS,
  '''            split = 3 if digits[0] == "1" else 2
''', '''            split = 3 if digits[0] == "1" and len(digits) > 5 else 2
'''),
 ("E23 label-from-number: second character code off by one for codes > 120", "C20", XS,
  '''            return chr(int(digits[:split])) + chr(int(digits[split:]))
''', '''            second = int(digits[split:])
            return chr(int(digits[:split])) + chr(second if second <= 120 else second - 1)
'''),
 ("R24 getBlockBandwidth: min written as a conditional, locals renamed", "C09", CC,
  '''    x = (nintj - 1) // nblok + 1
    jLow = (m - 1) * x + 1
    jHigh = min(nintj, m * x)
    return jLow - 1, jHigh - 1
''', '''    perBlock = (nintj - 1) // nblok + 1
    upper = m * perBlock
    if upper > nintj:
        upper = nintj
    return (m - 1) * perBlock, upper - 1
'''),
 ("R25 getBlockBandwidth: divmod and rearranged arithmetic", "C09", CC,
  '''    x = (nintj - 1) // nblok + 1
''', '''    q, _r = divmod(nintj - 1, nblok)
    x = 1 + q
'''),
 ("E24 getBlockBandwidth: one column skipped before every block from the ninth on", "C09", CC,
  '''    jLow = (m - 1) * x + 1
''', '''    jLow = (m - 1) * x + (1 if m < 9 else 2)
'''),
 ("E25 getBlockBandwidth: upper bound not clipped for wide matrices (nintj > 500)", "C09", CC,
  '''    jHigh = min(nintj, m * x)
''', '''    jHigh = min(nintj, m * x) if nintj <= 500 else m * x
'''),
 ("R26 getH5GroupName: f-string free restructuring with explicit pieces", "C06", DB,
  '''    return "c{:0>2}n{:0>2}{}".format(cycle, timeNode, statePointName or "")
''', '''    label = statePointName or ""
    return "c" + "{:0>2}".format(cycle) + "n" + "{:0>2}".format(timeNode) + label
'''),
 ("R27 getH5GroupName: zero padded decimal format {:02d}", "C06", DB,
  '''    return "c{:0>2}n{:0>2}{}".format(cycle, timeNode, statePointName or "")
''', '''    return "c{:02d}n{:02d}{}".format(cycle, timeNode, statePointName or "")
'''),
 ("E26 getH5GroupName: node padded to one digit only (c01n1 vs c01n10 prefix; parse fails)", "C06", DB,
  '''    return "c{:0>2}n{:0>2}{}".format(cycle, timeNode, statePointName or "")
''', '''    return "c{:0>2}n{:0>1}{}".format(cycle, timeNode, statePointName or "")
'''),
 ("E27 getH5GroupName: cycles from 50 on wrap (cycle % 50)", "C06", DB,
  '''    return "c{:0>2}n{:0>2}{}".format(cycle, timeNode, statePointName or "")
''', '''    return "c{:0>2}n{:0>2}{}".format(cycle % 50, timeNode, statePointName or "")
'''),
 ("R28 rotateIndex: sign flip via conditional factor", "C08", HX,
  '''            if rotations % 2:
                newI *= -1
                newJ *= -1
''', '''            sign = -1 if rotations % 2 else 1
            newI = sign * newI
            newJ = sign * newJ
'''),
 ("R29 rotateIndex: deque rotated by the reduced count", "C08", HX,
  '''            buffer.rotate(-rotations)
''', '''            buffer.rotate(-(rotations % 3))
'''),
 ("E28 rotateIndex: rotation direction reversed", "C08", HX,
  '''            buffer.rotate(-rotations)
''', '''            buffer.rotate(rotations)
'''),
 ("E29 rotateIndex: sign flip skipped for large odd counts", "C08", HX,
  '''            if rotations % 2:
''', '''            if rotations % 2 and abs(rotations) < 1000:
'''),
 ("R30 Cartesian getRingPos: offsets via a local half, branches as early returns", "C07", CA,
  '''        if j == ring:
            # region 1
            pos = -i + ring
        elif i == -ring:
            # region 2
            pos = 3 * ring - j
        elif j == -ring:
            # region 3
            pos = 5 * ring + i
        else:
            # region 4
            pos = 7 * ring + j
        return (int(ring) + 1, int(pos) + 1)
''', '''        ringNumber = int(ring) + 1
        if j == ring:
            return (ringNumber, int(ring - i) + 1)
        if i == -ring:
            return (ringNumber, int(3 * ring - j) + 1)
        if j == -ring:
            return (ringNumber, int(i + 5 * ring) + 1)
        return (ringNumber, int(j + 7 * ring) + 1)
'''),
 ("R31 Cartesian getRingPos: single offset variable", "C07", CA,
  '''        if not split:
            i += 0.5
            j += 0.5

        ring = max(abs(int(i)), abs(int(j)))

        if not split:
            ring += 0.5
''', '''        offset = 0 if split else 0.5
        i = i + offset
        j = j + offset

        ring = max(abs(int(i)), abs(int(j))) + offset
'''),
 ("E30 Cartesian getRingPos: region 3 start 5*ring -> 5*ring - 1 beyond ring 100", "C07", CA,
  '''            pos = 5 * ring + i
''', '''            pos = 5 * ring + i - (1 if ring > 100 else 0)
'''),
 ("E31 Cartesian getRingPos: offset grid ring not bumped by the half (ring number one low on the outer corner)", "C07", CA,
  '''        if not split:
            ring += 0.5

''', '''        if not split and ring < 90:
            ring += 0.5

'''),
]
only = sys.argv[1:]
ROOT = "/tmp/st2/copy"
for name, prop, rel, old, new in CASES:
    if only and not any(name.startswith(o) for o in only):
        continue
    subprocess.run(["rm", "-rf", ROOT]); os.makedirs(ROOT); subprocess.run(["cp", "-r", "/repo/armi", ROOT + "/armi"])
    src = open("/repo/" + rel).read()
    assert src.count(old) == 1, (name, src.count(old))
    open(ROOT + "/" + rel, "w").write(src.replace(old, new))
    env = dict(os.environ, ARMI_REPO=ROOT, PYTHONDONTWRITEBYTECODE="1")
    try:
        p = subprocess.run(["/venv/bin/python", "/verif/notes/srctie-run-only.py", prop], env=env, capture_output=True, text=True, cwd="/verif", timeout=900)
        out, rc = p.stdout + p.stderr, p.returncode
    except subprocess.TimeoutExpired:
        out, rc = "TIMEOUT", 124
    stat = [l.strip() for l in out.split("\n") if "->" in l and "proved" not in l.split("->")[1][:8]]
    fails = [l.strip() for l in out.split("\n") if l.strip().startswith("FAIL")][:2]
    wall = re.findall(r"wall=([\d.]+)s", out)
    print("=" * 90); print(name, "| exit", rc, "| wall", wall[-1] if wall else "?")
    for l in stat: print("   ", l[:230])
    for l in fails: print("   ", l[:260])
    if rc not in (0, 1): print(out[-1500:])
    sys.stdout.flush()
subprocess.run(["rm", "-rf", ROOT])
