#!/usr/bin/env python3
"""Compare a junit xml of the pinned suite against /root/.vp/BASELINE.json stable_pass."""
import json, sys
import xml.etree.ElementTree as ET
base = json.load(open('/root/.vp/BASELINE.json'))
stable = set(base['stable_pass'])
root = ET.parse(sys.argv[1]).getroot()
passed = set()
bad = {}
for tc in root.iter('testcase'):
    name = f"{tc.get('classname')}::{tc.get('name')}"
    kids = [k.tag for k in tc]
    if any(k in ('failure', 'error') for k in kids):
        bad[name] = kids
    elif 'skipped' not in kids:
        passed.add(name)
missing = sorted(stable - passed)
print(f"stable_pass={len(stable)} passed_now={len(passed)} missing_from_stable={len(missing)} failed_now={len(bad)}")
for m in missing[:40]:
    print("  MISSING", m, bad.get(m))
sys.exit(1 if missing else 0)
