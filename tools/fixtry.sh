#!/bin/bash
# tools/fixtry.sh <patch> : apply a candidate fix in a scratch worktree of /repo, run the pinned suite, compare with BASELINE.
# Prints missing_from_stable; leaves nothing behind. /repo itself is not touched.
p=$(readlink -f "$1"); wt=/tmp/fixwt-$$
git -C /repo worktree add --detach $wt HEAD -q || exit 2
cd $wt && (git apply "$p" || patch -p1 < "$p") || { git -C /repo worktree remove --force $wt; exit 2; }
/venv/bin/python -m pytest -q -p no:cacheprovider --timeout=900 --continue-on-collection-errors --junitxml=$wt/junit-fix.xml > $wt/suite.log 2>&1
python3 /verif/tools/baseline_compare.py $wt/junit-fix.xml; rc=$?
cd /; git -C /repo worktree remove --force $wt
exit $rc
