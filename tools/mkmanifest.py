#!/usr/bin/env python3
"""Regenerate MANIFEST.json from the table below (run from /verif). A property is claimed
iff harness/cXX.py exists and is listed in CLAIMED; everything else goes to not_applicable
with its reason."""
import json
import os

VERIF = os.path.dirname(os.path.dirname(os.path.abspath(__file__)))

BASE_NOTE = ("Trusted: Lean 4.33.0 kernel; axioms audited per theorem on every run (subset of propext, "
             "Classical.choice, Quot.sound; no native_decide/bv_decide/sorry/own axioms); the hand-written Lean "
             "model, whose tie to /repo is the correspondence check run by this command (armi imported from "
             "/repo's working tree, same inputs to model and implementation, canonicalised diff) plus regenerated "
             "data tables where stated; the Python harness. ")

# id -> (text, note (what is modelled rather than verified), design section)
CLAIMED = {}


def claim(pid, text, note, technique="Lean 4 theorems about an executable model + correspondence check against /repo"):
    CLAIMED[pid] = (text, note, technique)


claim("C07",
      "Kernel-checked theorems for every cell of Z^2: ring/pos and indices are mutually inverse bijections, ring = hex "
      "distance + 1, positions 1..6(r-1), least ring count exact (incl. the integer floor under the square root), six "
      "neighbours one pitch away and 60 degrees apart CCW in both orientations; affine/bounds coordinates, nesting and "
      "reduce round trip for the generic grid model. Tied to the code by exhaustive correspondence over all cells within "
      "N rings, both orientations, several pitches, and generated bounds grids.",
      "Floating-point rounding of coordinates (compared to 1e-9); math.sqrt modelled by Nat.sqrt (agreement checked on "
      "all small n and ring boundaries); label string formatting exercised on the implementation only.")

NOT_YET = {}

ALL = [f"C{n:02d}" for n in range(1, 21)]


def main():
    checks = []
    for pid in ALL:
        if pid in CLAIMED and os.path.exists(os.path.join(VERIF, "harness", pid.lower() + ".py")):
            text, note, tech = CLAIMED[pid]
            checks.append({
                "property_id": pid,
                "quick_cmd": f"./check {pid} quick",
                "thorough_cmd": f"./check {pid} thorough",
                "evidence_file": f"evidence/{pid}.json",
                "replay_cmd_template": f"./check {pid} --replay {{path}}",
                "engine": "lean-model+corr-harness",
                "level_claimed": {"category": "proof", "text": text, "design_ref": f"DESIGN.md section 5 ({pid})"},
                "level_note": BASE_NOTE + "Modelled, not verified: " + note,
                "technique": tech,
            })
    na = [{"property_id": pid,
           "reason": NOT_YET.get(pid, "check not built yet in this round (design in DESIGN.md section 5); not claimed until its "
                                      "Lean model, theorems and correspondence harness are committed")}
          for pid in ALL if pid not in [c["property_id"] for c in checks]]
    man = {
        "version": 1,
        "setup_cmd": "cd lean && lake build 2>&1 | tail -5",
        "hooks": {
            "guard": "TERRAPOWER_ARMI_VERIF",
            "enable": "no hooks: every property is observed through armi's public API; checks import armi from /repo's working tree",
            "baseline_off_cmd": "cd /repo && /venv/bin/python -m pytest -ra -q -p no:cacheprovider --timeout=900 --continue-on-collection-errors",
            "source_commits": [],
            "add_only": True,
        },
        "engines": [
            {"name": "lean-model", "path": "lean/", "serves_properties": [c["property_id"] for c in checks],
             "kind_free_text": "Lean 4 executable models (lean/ArmiVerif/Model), property theorems (lean/ArmiVerif/Props), line-protocol drivers (lean/Drivers)"},
            {"name": "corr-harness", "path": "harness/", "serves_properties": [c["property_id"] for c in checks],
             "kind_free_text": "Python correspondence harness: drives the real armi code and the Lean model with the same inputs, diffs canonical outputs, evaluates the property clauses on the real objects, searches for failing inputs"},
        ],
        "checks": checks,
        "notes": "See DESIGN.md. KNOWN_FINDINGS.txt lists genuine defects of the pinned tree (printed as KNOWN-FINDING lines).",
        "not_applicable": na,
    }
    with open(os.path.join(VERIF, "MANIFEST.json"), "w") as f:
        json.dump(man, f, indent=1)
    print("claimed:", [c["property_id"] for c in checks])


if __name__ == "__main__":
    main()
