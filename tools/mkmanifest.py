#!/usr/bin/env python3
"""Regenerate MANIFEST.json from the table below (run from /verif). A property is claimed
iff harness/cXX.py exists and is listed in CLAIMED; everything else goes to not_applicable
with its reason."""
import json
import os

VERIF = os.path.dirname(os.path.dirname(os.path.abspath(__file__)))

BASE_NOTE = ("Trusted: Lean 4.33.0 kernel; axioms audited per theorem on every run (subset of propext, "
             "Classical.choice, Quot.sound; no native_decide/bv_decide/sorry/own axioms); the hand-written Lean "
             "model, whose tie to /repo is the correspondence check run by this command (armi imported from "
             "/repo's working tree, same inputs to model and implementation, canonicalised diff) plus regenerated "
             "data tables where stated; the Python harness. ")

# id -> (text, note (what is modelled rather than verified), design section)
CLAIMED = {}


def claim(pid, text, note, technique="Lean 4 theorems about an executable model + correspondence check against /repo"):
    CLAIMED[pid] = (text, note, technique)


claim("C07",
      "Kernel-checked theorems for every cell of Z^2: ring/pos and indices are mutually inverse bijections, ring = hex "
      "distance + 1, positions 1..6(r-1), least ring count exact (incl. the integer floor under the square root), six "
      "neighbours one pitch away and 60 degrees apart CCW in both orientations; affine/bounds coordinates, nesting and "
      "reduce round trip for the generic grid model. Tied to the code by exhaustive correspondence over all cells within "
      "N rings, both orientations, several pitches, and generated bounds grids.",
      "Floating-point rounding of coordinates (compared to 1e-9); math.sqrt modelled by Nat.sqrt (agreement checked on "
      "all small n and ring boundaries); label strings: see the codec note below.")


claim("C02",
      "Lean proofs over exact rationals for one generic composite level, instantiated for block, assembly and core: the "
      "homogenised number density is the volume-weighted mean, so atoms are additive at every level with any symmetry factor; "
      "mass = density x volume; every composition setter (setNumberDensity, updateNumberDensities, changeNDensByFactor, "
      "addMass/removeMass/setMass, setMassFracs) reads back at its own level and leaves other nuclides alone; mass fractions "
      "sum to one and the densityTools conversions are mutual inverses. Tied to the code on every run by mirroring the "
      "third-core reference reactor (symmetry factors 1, 2, 3) and generated assemblies as exact rationals, applying seeded "
      "edit sequences (zeros, trace values, voiding and refilling) to both sides and comparing every quantity after every edit.",
      "floating-point rounding (1e-9 relative); component volumes, atomic weights and symmetry factors are model inputs; "
      "element/list nuclide specifiers and LFP expansion are oracle-only; composition-dependent expansion not modelled; three "
      "hypotheses exclude listed findings (assembly volume = sum of block volumes, component mass read-back in a cut block, "
      "Component.density() of an all-zero composition).")
claim("C03",
      "Lean proofs for every expansion curve with 1 + dL/L > 0, every two-dimensional shape class and every temperature "
      "history: telescoping expansion factor, path independence, area proportional to factor^2 for exactly each shape's "
      "expanding dimensions, conservation of mass per unit height, dimension = cold x factor, hot-set read-back (also through "
      "retained links), link following, fixed dimensions for fluids. The per-class THERMAL_EXPANSION_DIMS table is regenerated "
      "from /repo on every run and kernel-checked against the sets the homogeneity lemmas were proved for. Tied to the code on "
      "the full cross product shape classes x all library material classes x seeded histories inside each validity range "
      "(exact bounds, 0.0 C), plus linked-dimension configurations, feeding each material's measured curve as the parameter.",
      "the correlations themselves are parameters; floating-point rounding (1e-9); math.sqrt in Helix is a parameter with a "
      "scaling lemma; composition-dependent expansion and the Tc argument of getDimension not modelled; DerivedShape area not modelled.",
      "Lean 4 theorems + regenerated shape table obligations + correspondence check against /repo")
claim("C06",
      "Store model (write, load, listing, history, merge, split, close, error path) with the database interface folded over "
      "C15's run. Proved for every configuration: snapshot isolation, overwrite refusal, exact chronological listing and the "
      "name order for cycle/node < 100, history by serial number, merge and split content, the crash file for every event index "
      "between opening and finalisation (completed writes + error snapshot, not successful), and the complete-run content. Tied "
      "to real Database objects on real HDF5 files (random histories incl. object moves between writes) and to real Operator "
      "runs with a fault-injecting interface at every stack position and every hook call.",
      "HDF5/h5py storage and durability, safeMove atomicity, failures inside the writer, process kills; layout and parameter "
      "packing are C04/C05's; a snapshot is (cycle, node, one value per followed object); order of the returned history dict and "
      "which interface opens the database are correspondence-only.")
claim("C08",
      "Index rotation (all k in Z) is proved to be the exact 60-degree counter-clockwise rotation of the cell centre (integer "
      "identity and over any field containing sqrt 3), additive, of period six, ring-preserving; third-core equivalents are the "
      "120/240-degree images; the first third is the 0-120 degree sector with exact 1/2 orbit counts off/on the edge lines; line "
      "classes are equivalent to the rays; Cartesian quarter-core equivalents are the orbit minus the cell with one member in the "
      "domain; getIndexOfRotatedCell, pivot and the HexBlock.rotate composition laws are proved on the model. Exhaustive tie over "
      "cells (both orientations, k in -14..14) and real HexBlocks/HexAssemblies rotated by every k.",
      "rounding from rad to rotNum is a parameter; cos/sin exact in Q(sqrt 3) and compared to 1e-9; SymmetryType string decoding "
      "and deepcopy of blocks exercised, not modelled.")
claim("C09",
      "Kernel-checked theorems over an executable model of cccc.py: every well-formed bidirectional record/file program reads back "
      "exactly what it wrote; every binary record of any int/long/real/double/string/list/matrix field sequence is framed by counts "
      "equal to its payload length; re-writing what was read reproduces the bytes; _rwMatrix is a column-major bijection; block "
      "bandwidths tile the column range; the ISOTXS banded reversed storage round-trips any row. On every run recording record "
      "classes substituted through Stream._fileModes show, for 19 format entries x {binary, ASCII} on generated containers and all "
      "shipped fixtures, that the real files equal the model's bytes byte for byte, the reader replays the writer's call trace, data "
      "are equal after read and re-writing is identical.",
      "float<->bit-pattern conversion (single/double); in the first build ASCII real parsing and which records each format's "
      "readWrite emits were covered by measured hypotheses / trace equality only - since the continuation round both are modelled "
      "(see below); generator domain limits (NSBLOK = 1, ...) run as excluded points and are reported as findings.")
claim("C10",
      "Kernel-checked theorems over a statement-by-statement transcription of the merge call chain (partial mutation included): for "
      "any number of libraries and any permutation, acceptance and merged content are order-independent; the result holds exactly "
      "the union of labels with each nuclide field from its source; incompatible inputs are rejected; macroscopic constants equal "
      "sum N.sigma.nu group by group, are linear and additive, derived quantities equal their defining sums. Tied to the real "
      "classes on fixture libraries and generated library sets in every merge order and generated compositions.",
      "payload equality (numpyHackForEqual) is an interned parameter; higher-order scatter oracle-only (file-wide chi is modelled since the continuation round); 'rejected => target "
      "unchanged' is refuted in general (three witnesses, listed findings); 'zero for an empty composition' holds for the defining "
      "sum, not the code (finding); floating-point rounding.")
claim("C11",
      "Lean theorems over an exact rational model of getBlocksBetweenElevations, setNumberDensitiesFromOverlaps, "
      "setAssemblyStateFromOverlaps, _filterMesh, resampleStepwise, average1DWithinTolerance and getBlockAtElevation: for all "
      "contiguous mesh pairs over the same height and all profiles, atom conservation, integrated-total conservation, "
      "height-weighted means, constants, peaks (values >= 0), round-trip totals, the partition of every window, and the full "
      "_filterMesh specification. Tied on every run by same-input correspondence on real fixture assemblies and generated inputs "
      "(nearly coincident meshes, repeated re-meshing) plus an independent oracle.",
      "floating-point rounding; slivers below 1e-10 and points 1e-7..3e-11 apart are oracle-only; XS-type selection and "
      "createHomogenizedCopy; np.digitize / sorted(set()) modelled by definition and checked by correspondence.")
claim("C12",
      "Lean theorems over an executable model of axiallyExpandAssembly with linkage, targets and growth factors as inputs: for any "
      "block count and any sequence of expansions, height preservation, contiguity, boundary-follows-target, linked stacking, "
      "positivity conditions, uniform-growth mass conservation and inverse restoration; target-mass conservation under the explicit "
      "lower-link hypothesis with its negation proved at a witness (listed finding). The real AssemblyAxialLinkage, targets and "
      "factors of the fixture assemblies are read on every case and fed to the model; an independent oracle checks every clause on "
      "the real objects (tiny steps, paths through 0 C, closed cycles).",
      "areAxiallyLinked geometry, target selection, material correlations and temperature averaging are inputs; radial part is "
      "C03's; rounding; only the detailedAxialExpansion fixture assembly types are driven.")
claim("C13",
      "Kernel-checked theorems over a transcription of ThirdCoreHexToFullCoreChanger and EdgeAssemblyChanger: for every third-core "
      "hex core the converted core consists exactly of the 120-degree orbits with no collision; count, mass, volume and every "
      "volume-integrated total are x3 with the centre counted once; copies are freshly named, payload-equal and rotated into place; "
      "restore after convert and removeEdge after addEdge are the identity; every state reachable by any sequence of the four "
      "operations is a third-core state with the original content or the conversion of one. Tied to the real reference reactor and "
      "cut-down variants by per-operation state comparison plus an implementation-side oracle.",
      "deepcopy independence (oracle); float rounding of mass/volume (1e-9); block-internal rotation is C08's; the "
      "SINCE_LAST_GEOMETRY_TRANSFORMATION flag is one boolean; listed findings excluded by explicit hypotheses.")
claim("C14",
      "Kernel-checked invariant over a transcription of swap, cascade, dischargeSwap, Core.add, Core.removeAssembly and "
      "Assembly.moveTo: nothing duplicated, one assembly per cell, location table a bijection, present assemblies found by name, "
      "nothing purged found; preserved by every operation under the preconditions the code checks, hence in every reachable state; "
      "multiset inventory conservation per step and per history; contents unchanged and stationary blocks staying in place. Tied to "
      "the real reference core and SFP by whole-state comparison after every operation of random histories under all tracking x "
      "stationary-flag settings, plus an oracle that checks by name.",
      "names identified with objects (renumbering is oracle-only); block-level lookup theorem partial; SFP cell coordinates, "
      "numMoves/lastLocationLabel and symmetry rescaling of parameters on moves not modelled; listed findings are excluded points.")
claim("C15",
      "The schedule `run` transcribes _mainOperate/_cycleLoop/_timeNodeLoop/_performTightCoupling/getActiveInterfaces/_interactAll "
      "and is proved equal, for every configuration, to an independently written declarative schedule; theorems cover node order "
      "and gaps, halting, coupling iteration counts, the active-interface rule, stack and end-of-life order, argument/state "
      "agreement, node and step arithmetic inverses, cumulative numbering = visit order, and step-length sums. The tie runs real "
      "Operators with recording interfaces and compares event logs exactly; node arithmetic is exhaustive for burn-step vectors of "
      "length <= 4 with entries <= 4.",
      "interface construction and ordering (createInterfaces, STACK_ORDER); float rounding of step lengths; r.p.stepLength and "
      "power inside hooks; MPI workers.")
claim("C17",
      "Kernel-checked theorems about the settings model: for all three write styles write-then-read is the identity on every "
      "setting except the version stamp; the key set of each style is characterised exactly; a value the schema refuses is "
      "rejected and leaves the previous value, on assignment and on read; unexpired old names land on the new setting, expired ones "
      "are invalid, colliding renames refused; a modified copy and its original are unaffected by any assignment history on the "
      "other. Tied to the code over the whole registry (154 settings x schema-generated valid, falsy and near-miss values x three "
      "styles through the real YAML writer and reader), generated rename registries and modified() histories.",
      "ruamel YAML formatting and voluptuous coercion enter as the per-setting hypothesis schema(dump v) = v (tested for every "
      "setting and value, not proved); log-verbosity initialisation (two listed findings); the versions stamp; container kind.")
claim("C18",
      "Kernel-checked: for every map size the text-cell to index maps of all four ascii map classes are bijections with closed-form "
      "line numbers; every reader keeps every token at its computed index; the Cartesian reader is characterised exactly and the "
      "Cartesian writer is sound on non-negative indices; a drawing reads back with every label at its own index unless the outline "
      "inferred from the data misses a cell or the reader re-infers other dimensions (exactly the classes of the listed findings); "
      "block elevations are cumulative and contiguous; linked dimensions resolve over any well-founded link graph; placement gives "
      "exactly the named locations. Tied by exhaustive-small and generated correspondence with armi.utils.asciimaps in both "
      "directions, GridBlueprint save/reload, and generated blueprint YAML built by the real reactors.factory compared field by "
      "field with an independent reading of the document.",
      "the hex write direction (dimension inference, corner truncation) is correspondence-only; component construction, materials, "
      "thermal expansion and composition after material modifications are compared with an independent Python evaluation; custom "
      "isotopics and theta-RZ grids not generated.")
claim("C19",
      "Structured nuclide identifiers (name, label, MCNP, AAAZZZS) are proved injective and decodable in Lean for all (z, a, "
      "state); for the table REGENERATED from /repo's nuclides.dat, burn-chain.yaml and mcc-nuclides.yaml on every run the kernel "
      "re-checks (decide +kernel, linear passes) that all 4624 nuclides have pairwise distinct ids, belong to their element, "
      "abundances sum to one, burn-chain products exist with branches in [0,1] and MC2 ids are unique per library. Every loaded "
      "nuclide is compared exhaustively with the model and every lookup checked for object identity.",
      "decimal/character rendering of ids; lumped/dummy burn-chain products defined in code; the material-library half is an "
      "exhaustive enumeration of classes at sampled temperatures (incl. exact range ends), not a theorem.",
      "Lean 4 theorems + kernel-checked obligations over a table regenerated from /repo + exhaustive correspondence")
claim("C20",
      "Lean theorems over exact rationals: grouping partitions blocks by micro suffix; every admissible label converts to its number "
      "and back without collision; averaged values are weight-normalised means of eligible members (convex, equal-members, "
      "duplication and scale invariant); burnup is HM-weighted over eligible members; the median block is an eligible member of rank "
      "floor(n/2). Tied exhaustively for labels (52 + 52^2) and on generated block sets of the reference reactor for every "
      "collection variant and group structure, with an independent oracle and before/after core dumps.",
      "floating-point rounding of numpy sums; deep copy and LFP handling; 1-D slab/cylinder collections; getVolume, getMass, "
      "getVolumeFractions are inputs.")


claim("C04",
      "Lean theorems over an executable transcription of the layout logic: compose inverts flatten for all trees and all row lists "
      "(load-twice, save-of-load), indexInData pairs every object with its own row of its type's datasets, packing/unpacking of all "
      "four location kinds and all multi-index lengths, grid-table lookup. Tied on every run to the real Layout arrays, the file's "
      "layout datasets, _unpackLocations, computeAncestors and generated composite trees; the whole property is then checked as a "
      "canonical-dump oracle on five shipped inputs (hex third/full, Cartesian, RZ, axial-expansion fixture) under seeded edits "
      "through the real writeToDB/load, including load-twice and save-of-load.",
      "theorems cover only layout/locator/index/grid-table logic; child sort key, reduce(), blueprint re-construction of components "
      "and material lookup are checked only by the whole-stack oracle; shipped inputs replace generated blueprints; arbitrary values "
      "go only to free parameters (derived list explicit in c04.py); listed findings are excluded.")
claim("C05",
      "Lean theorems over an executable transcription of _writeParams / JaggedArray / packSpecialData / NONE_MAP / FlagSerializer: any "
      "one-dtype list that is accepted reads back equal up to the documented normalisations through every strategy; writer and reader "
      "None-sentinels agree for every dtype of the table REGENERATED from layout.py on every run; flag sets keep their meaning under "
      "any reordering or extension of the field list. Tied by seeded runs through the real _writeParams -> HDF5 -> _readParams and "
      "_packImpl -> _unpackImpl, an exhaustive 819-case alphabet and the full numpy promotion table.",
      "numpy promotion, 'inhomogeneous shape raises', h5py's refusal of unicode arrays and HDF5 storage are parameters checked by the "
      "correspondence; nesting modelled to depth 2; mixed-dtype lists judged by the oracle only; explicit guards exclude listed findings.",
      "Lean 4 theorems + kernel-checked obligations over constants regenerated from /repo + correspondence check")


claim("C01",
      "Lean 4 theorems over an arena model with separate back-pointer and child list: every valid-use edit history of any length "
      "(add, insert, remove, removeAll, setChildren, sort, reestablishBlockOrder, moveTo) keeps parent/child agreement and "
      "duplicate-freeness; remove detaches; predicate, generation, deep-membership and ancestor queries meet their naive-walk "
      "specs; the excluded points of the listed findings provably break the invariant. Tied to the real Composite, HexBlock, "
      "HexAssembly and Core objects by a whole-tree state comparison after every operation, random traversal queries, copy/pickle "
      "points, plus an independent oracle.",
      "locator and grid content (C07); the sort comparator is a parameter (ranks from the real __lt__); Core.add bookkeeping (C14); "
      "parameter payload of copies (C16); Block geometry bookkeeping; whatever of copy/pickle is not yet carried by a theorem is "
      "correspondence- and oracle-only (see evidence 'partial').")
claim("C16",
      "Lean 4 theorems over a model with back-up stacks for parameters, caches and grids: for any program of assignments and "
      "arbitrarily nested scopes a scope restores every non-kept parameter, keeps the kept ones, restores cache and grid and "
      "returns all back-up chains to their entry state (LIFO); deep copies are equal and independent; serial numbers are fresh and "
      "unique over create/deepcopy histories; read-only refuses every assignment. Tied to real reactor objects by per-step dumps of "
      "every parameter of every touched object, a snapshot oracle and an API-level stream (number densities, temperatures, heights, "
      "hex and offset-Cartesian pitch).",
      "values are equality codes (pickle/deepcopy fidelity of leaf values is exercised, not proved); custom setters and API "
      "mutators oracle-only; material caches oracle-only; serial uniqueness excludes pickle and DB load, which preserve serials by "
      "design; MPI; listed findings excluded.")


# ---- texts updated after builders' stage 2/3 (later claim() overrides the earlier one) ----
claim("C01",
      "Lean 4 theorems over an arena model with separate back-pointer and child list: every reachable state of any finite "
      "valid-use history (add, insert, remove, removeAll, setChildren, sort, reestablishBlockOrder, moveTo, deepcopy and pickle "
      "round trips in any order) is a well-formed (parent/child agreement both ways, no duplicates), acyclic forest of live "
      "objects (wfl_run); remove detaches; a copy or unpickled subtree is shape-equal, shares no node with the original, is "
      "internally re-linked (children, grids), its root is parentless and the original is untouched (copy_spec, pickle_spec); "
      "traversals meet their naive-walk specs (predicate filter, generation, deep membership = strict descendant each once in the "
      "stated order, components, ancestors); the excluded points of the listed findings provably break the invariant. Tied to real "
      "Composite, HexBlock, HexAssembly and Core objects by whole-tree state comparison after every operation plus an independent oracle.",
      "deepcopy and pickle are one model operation; locator and grid content beyond attached/owner (C07); the sort comparator "
      "(ranks from the real __lt__); Core.add bookkeeping (C14); parameter payload of copies (C16); Block geometry bookkeeping.")
claim("C04",
      "Lean theorems over executable transcriptions of the layout logic, composed with C05's model: compose inverts flatten for "
      "all trees and row lists; the loaded tree is the saved tree with every child list sorted, identical iff the lists were "
      "already sorted (the child-order finding stated exactly); every object is paired with its own row and its own parameter value "
      "is decoded up to the documented normalisations (save_load_param_own = compose_flatten + param_lookup_own + C05's "
      "write_read_faithful); all four location kinds round-trip; grid-table lookup is lossless; computeAncestors returns the parents. "
      "Tied on every run to the real Layout arrays, the file's layout datasets, _unpackLocations, computeAncestors, "
      "sorted(children) and generated composite trees; the whole property is exercised as a canonical-dump oracle on five shipped "
      "inputs under seeded edits through the real writeToDB/load (ragged n-d arrays, dict key-set edits, fractional coordinates, "
      "rotations, full-core conversion; load-twice and save-of-load).",
      "h5py, blueprint re-construction of components, material lookup, reduce() and Component.__lt__ are checked by the whole-stack "
      "oracle only; shipped inputs replace generated blueprints; arbitrary values go to free parameters only (derived list explicit "
      "in c04.py); listed findings excluded.")
claim("C05",
      "Lean theorems over an executable transcription of _writeParams / JaggedArray / packSpecialData / NONE_MAP / FlagSerializer: "
      "every one-dtype per-object value list is either refused at write time or reads back equal up to the documented "
      "normalisations through all strategies (plain, None-sentinel scalars and fixed-shape arrays, ragged n-d, dict with key "
      "union), the single guard being 'no value equal to the None sentinel next to a None'; writer and reader sentinels agree for "
      "every dtype of the NONE_MAP regenerated from layout.py on every run; flag sets keep their meaning end to end (pack, bytes, "
      "unpack) for any two classes satisfying the auto() invariant. Tied on every run to the real _writeParams -> HDF5 -> _readParams "
      "and _packImpl -> HDF5 -> _unpackImpl on seeded and exhaustive inputs.",
      "numpy promotion, 'inhomogeneous shape raises', h5py's refusal of unicode arrays and HDF5 storage are parameters checked by "
      "correspondence; nesting modelled to depth 2; mixed-dtype columns judged by the oracle only (finding); explicit "
      "non-consecutive flag values and sentinel collisions are listed findings.",
      "Lean 4 theorems + kernel-checked obligations over constants regenerated from /repo + correspondence check")
claim("C11",
      "Lean theorems over an exact rational model of getBlocksBetweenElevations, setNumberDensitiesFromOverlaps, "
      "setAssemblyStateFromOverlaps, _filterMesh, _decuspAxialMesh, Block.setHeight/adjustDensity, Assembly.setBlockMesh, "
      "resampleStepwise, average1DWithinTolerance and getBlockAtElevation: for all "
      "contiguous mesh pairs over the same height and all profiles, atom conservation, integrated-total conservation, "
      "height-weighted means, constants, peaks (values >= 0), round-trip totals, the partition of every window with the 1e-10 "
      "sliver filter characterised exactly, the full _filterMesh specification incl. refusal for both preferences, and "
      "resampleStepwise conservation and mean for arbitrary strictly increasing meshes; adjustDensity conserves density x height "
      "of every listed nuclide (up to the stated 1e-50 trace term) and leaves every unlisted one verbatim; every de-cusped common "
      "mesh is strictly increasing with no cell below the minimum (its failure to keep the core top in one configuration is a "
      "listed finding reproduced by the model). Tied on every run by same-input "
      "correspondence on real fixture assemblies and generated inputs (nearly coincident meshes, repeated re-meshing, unset-value "
      "patterns x parameter listing orders) plus an independent oracle.",
      "floating-point rounding; points 1e-7..3e-11 apart are oracle-only; XS-type selection and createHomogenizedCopy; output "
      "cells left of the first input point follow Python negative-index slicing (correspondence only); np.digitize / sorted(set()) "
      "modelled by definition.")
claim("C12",
      "Lean theorems over executable models of axiallyExpandAssembly, areAxiallyLinked, the AssemblyAxialLinkage construction and "
      "target selection (_setTargetComponents / determineTargetComponent): for any block count and any sequence of expansions, "
      "height preservation, contiguity, boundary-follows-target, linked stacking, positivity, uniform-growth conservation, inverse "
      "restoration; linkage symmetry and mutuality; uniqueness and validity of the chosen target; target-mass conservation under a "
      "hypothesis decidable from component geometry, which fails exactly on the two blocks of the listed finding, where the negation "
      "is proved. The model computes linkage and targets itself from bounding dimensions, class, multiplicity and flags read from "
      "the real objects and is compared on every case (fixture and constructor-built assemblies, tiny steps, paths through 0 C).",
      "bounding-diameter getters and containsSolidMaterial are inputs; Flags constants and TARGET_FLAGS_IN_PREFERRED_ORDER are data; "
      "material correlations and temperature averaging are inputs cross-checked against linearExpansionPercent; radial part is C03's; rounding.")
claim("C13",
      "Kernel-checked theorems over a transcription of ThirdCoreHexToFullCoreChanger and EdgeAssemblyChanger: for every third-core "
      "hex core the converted core consists exactly of the 120-degree orbits with no collision; count, mass, volume and every "
      "volume-integrated total are x3 with the centre counted once; copies are freshly named, payload-equal and rotated into place; "
      "restore after convert and removeEdge after addEdge are the identity; the theorems hold in every state reachable by any "
      "sequence of the four operations from a freshly loaded third core (good_run, run_third_content, run_full_is_conversion, "
      "run_scalesCentre); the condition under which convert scales the centre is characterised exactly. Tied to the real reference "
      "reactor and cut-down variants by per-operation state comparison plus an implementation-side oracle.",
      "float rounding of mass/volume (1e-9); deepcopy independence (oracle); block-internal rotation is C08's; lookup tables derived "
      "in the model; the assignment flag is one boolean; three listed findings are explicit excluded points.")
claim("C14",
      "Kernel-checked invariants over a transcription of swap, cascade, dischargeSwap, Core.add, Core.removeAssembly and "
      "Assembly.moveTo: nothing duplicated, one assembly per cell, location table a bijection, present assemblies found by name, "
      "purged ones not (inv_run over any history); multiset inventory conservation per step and per history; at block level, over "
      "arbitrary histories including purges, either tracking setting and stationary blocks changing hands, every block present is "
      "found, nothing else is, and no block is shared (blocks_run_with_purge); contents-unchanged and stationary-stay theorems; at "
      "name level Core.add of a fresh assembly registers exactly the current names. Tied by whole-state comparison after every "
      "operation of random histories under all tracking x stationary settings, name probes, and an oracle that checks by name.",
      "the identity-level state machine identifies names with objects (the name layer covers Core.add, dischargeSwap and purge); SFP "
      "cell coordinates, move bookkeeping and symmetry rescaling of parameters on moves not modelled; listed findings are excluded points.")
claim("C15",
      "Two models, both tied to real Operators. (a) Schedule: `run` transcribes _mainOperate/_cycleLoop/_timeNodeLoop/"
      "_performTightCoupling/getActiveInterfaces/_interactAll and is proved equal, for every configuration, to an independent "
      "declarative schedule; further theorems cover the active-interface rule, stack and end-of-life order, node order without "
      "gaps, halting, coupling iteration counts, argument/time-state agreement, all node and step arithmetic inverses, cumulative "
      "numbering = visit order, step-length sums. (b) Stack construction: getInterface, addInterface (position, flags, "
      "duplicate-name refusal, same-function replacement), removeInterface and createInterfaces' stable ORDER sort, with "
      "addInterface_keeps_order, names_unique over any add/remove sequence and createInterfaces_sorted. Tie: exact event logs of "
      "real runs with recording interfaces; exhaustive node arithmetic for burn-step vectors of length <= 4; add/remove/get "
      "sequences; the real createInterfaces on real settings.",
      "_processInterfaceDependencies passes; float rounding of step lengths; r.p.stepLength and power inside hooks; MPI workers; "
      "which configurations are refused is correspondence-only.")
claim("C16",
      "Lean 4 theorems over a model with back-up stacks for parameter values, caches, grids and definition flags: for any program of "
      "assignments (default or custom setters, incl. refusing, transforming and fanning-out ones) and arbitrarily nested scopes, a "
      "scope restores every non-kept parameter of every object beneath it (never-assigned ones become unset again), keeps the kept "
      "ones, restores cache and grid, leaves all back-up chains balanced and determines the definition flags; deep copies are equal "
      "and independent; serials are fresh and unique over create/deepcopy, preserved by pickle and unique per tree; read-only refuses "
      "every assignment. Tied to real reactor objects by per-step dumps of every parameter (incl. in-place mutation of nested "
      "payloads and unset status), a snapshot oracle and an API-level stream.",
      "values are equality codes (pickle/deepcopy fidelity of leaf values is exercised, not proved); in-place mutation is a model "
      "operation outside Prog; setters that touch other objects; API mutators and material caches oracle-only; one listed finding "
      "(kept parameter holding nested arrays); MPI.")
claim("C19",
      "Lean proves that every identifier construction (name, label, MCNP, AAAZZZS, database name) is injective both as a structured "
      "value and as the character string Python produces. For the table REGENERATED from /repo's nuclides.dat, burn-chain.yaml and "
      "mcc-nuclides.yaml on each run the kernel re-checks (decide +kernel, linear passes) that all 4624 nuclides have pairwise "
      "distinct identifier strings and belong to their element, that symbol <-> Z is a bijection, that natural isotopics (isomers "
      "included, equal to what the implementation reports) sum to one, that burn-chain products exist with branches in [0,1] and "
      "that MC2 ids are unique per library. Every loaded nuclide and every lookup is compared exhaustively (object identity).",
      "lumped and dummy pseudo-nuclides are defined in code; MC2 ids are data; the material-library half is an exhaustive "
      "enumeration of classes (repeated instantiation, both temperature units) at sampled temperatures incl. exact range ends - "
      "testing, not a theorem.",
      "Lean 4 theorems + kernel-checked obligations over tables regenerated from /repo + exhaustive correspondence")
claim("C20",
      "Lean theorems over exact rationals: grouping partitions blocks by micro suffix; environment-group assignment is total and "
      "monotone for any bounds and two blocks share an XS group iff XS type, burnup group and temperature group agree; every "
      "admissible label converts to its number and back without collision; averaged values are weight-normalised means of eligible "
      "members (convex, equal-members, duplication and scale invariant); burnup is HM-weighted over eligible members; the median "
      "block is an eligible member of rank floor(n/2). Tied exhaustively for labels (52 + 52^2) and on generated block sets of the "
      "reference reactor for every collection variant, group structure and component insertion order, with an independent oracle "
      "and before/after core dumps.",
      "floating-point rounding of numpy sums; deep copy and LFP handling; 1-D slab/cylinder collections; getVolume/getMass/"
      "getVolumeFractions are inputs; median keys a few ulp apart and one-/two-letter look-alike types are oracle-only excluded points.")


claim("C02",
      "Lean proofs over exact rationals for one generic composite level instantiated for block, assembly and core and chained into "
      "one statement: atoms counted as density x volume agree at component, block, assembly and core level for any symmetry "
      "factors; mass = density x volume at every level; every composition setter (setNumberDensity, updateNumberDensities, "
      "changeNDensByFactor, addMass/removeMass/setMass incl. component level in symmetry-cut blocks, setMassFracs) reads back at its "
      "own level and leaves other nuclides and the volumes alone; nuclide selections (nuclide, element symbol, nested lists) are a "
      "set-valued resolution whose mass is the sum over its distinct members; the derived (left-over) shape closes the block; mass "
      "fractions sum to one and the densityTools conversions are mutual inverses. Tied on every run by mirroring the third-core "
      "reference reactor (symmetry factors 1, 2, 3) and generated assemblies as exact rationals, applying seeded edit sequences "
      "(zeros, trace values, voiding/refilling, element-level and refused edits, resize scripts in every query order) to both sides "
      "and comparing every quantity after every edit, with an independent oracle on the real objects.",
      "floating-point rounding (1e-9 relative); component volumes, atomic weights, symmetry factors and the element table are "
      "inputs read from the real objects; LFP expansion not modelled; composition-dependent expansion not modelled (measured on "
      "every run that no library material has it); two hypotheses exclude the listed findings.")
claim("C03",
      "Lean proofs for every expansion curve with 1 + dL/L > 0, every two-dimensional shape class and every temperature history: "
      "telescoping expansion factor, path independence, area proportional to factor^2 for exactly each shape's expanding "
      "dimensions, conservation of mass per unit height, dimension = cold x factor, hot-set read-back (also through retained "
      "links), link following incl. chained and re-targeted links and reads at an explicit temperature, fixed dimensions for "
      "fluids, the derived (left-over) shape. The per-class THERMAL_EXPANSION_DIMS table is regenerated from /repo on every run "
      "and kernel-checked against the sets the homogeneity lemmas were proved for. Tied to the code on the full cross product shape "
      "classes x all library material classes x seeded histories inside each validity range (exact bounds, 0.0 C), plus linked-"
      "dimension configurations, feeding each material's measured curve as the parameter.",
      "the correlations themselves are parameters; floating-point rounding (1e-9); math.sqrt in Helix is a parameter with a "
      "scaling lemma; it is measured on every run that no library material's expansion depends on composition.",
      "Lean 4 theorems + regenerated shape table obligations + correspondence check against /repo")
claim("C17",
      "Kernel-checked theorems about the settings model: write then read is the identity for all three styles on every setting "
      "except the version stamp; the key set of each style is exact; refused values leave the previous value in place, on "
      "assignment and on read; unexpired old names land on the new setting, expired ones are reported invalid, colliding renames "
      "are refused, single-step renaming is complete when declaring settings are current; copies and originals are mutually "
      "isolated under any assignment history. Tied by whole-registry correspondence (154 settings: 94 framework + 60 from four "
      "built-in plugins, x schema-generated valid, falsy and near-miss values x three styles through the real YAML writer and "
      "reader), generated rename registries with expiry dates, and modified() histories incl. object-valued settings.",
      "the hypothesis schema(dump v) = v is discharged by test, not proof (table in the evidence); absence of rename chains is a "
      "measured fact about the registry; ruamel and voluptuous; log-verbosity initialisation (two listed findings); the version stamp.")
claim("C18",
      "Kernel-checked, for every map size: the text-cell <-> index maps of all four ascii map classes are bijections; every reader "
      "keeps every token at its computed index; Cartesian maps are drawn completely or refused and re-drawing what was read "
      "reproduces the text; for every class a drawing reads back to exactly the contents (nothing lost, nothing invented) unless "
      "the outline inferred from the data misses a cell or the reader re-infers other dimensions; complete third-core, full-core and "
      "tips-up maps of any radius satisfy those conditions; block elevations are cumulative; linked dimensions resolve over any "
      "well-founded link graph, cycles or unknown targets rejected; placement is exact, unknown specifiers refused; per-block lists "
      "of unequal length refused; lattice multiplicity is the position count; flags from names follow the coded word rule. Tied by "
      "exhaustive-small and generated correspondence with the ascii map classes in both directions, GridBlueprint save/reload, and "
      "generated blueprint YAML (hex, Cartesian, pin lattices, material modifications, shared custom isotopics in all three forms) "
      "built by the real factory and compared field by field with an independent reading.",
      "hole cases violating the two conditions are the listed findings; duplicate block and specifier names are accepted "
      "(findings); truncated-corner maps in the write direction, component construction, materials, thermal expansion and "
      "composition are correspondence-only (independent Python evaluation); theta-RZ grids not generated.")


# ---------------------------------------------------------------------------------------------------------------
# Continuation round (session 2): additions to the claims above, as reported by the builders of that round.
def extend(pid, text_add="", note_add="", tech_add=""):
    text, note, tech = CLAIMED[pid]
    CLAIMED[pid] = ((text + " " + text_add).strip(), (note + " " + note_add).strip(), (tech + tech_add))


SRC_TECH = (" + source-translation tie: the integer functions the theorems are about are re-translated from the current "
            "source text by tools/py2lean.py on every run; kernel-checked theorems Gen.Src.f = model f for all inputs and "
            "corollaries restating the property over the translated definitions (Props/SrcTie); translator validated per run "
            "by differential execution of generated Lean vs real Python")

extend("C01",
       "The state carries a truthiness flag per node and the no-predicate queries are transcribed through Python's filter: no "
       "query depends on truthiness, getChildren() is the raw child list, removeAll/setChildren as written equal the list-walk "
       "versions, and typed queries (getChildrenWithFlags/OfType, getFirstBlock/ByType, getAncestorWithFlags) meet their specs; in "
       "every reachable state the deep query is the duplicate-free set of strict descendants with no fuel hypothesis; ex-core edits "
       "(SpentFuelPool/ExcoreStructure.add, discharge into the pool) keep the forest well formed (wfl_run2, discharge_spec). Tied on "
       "trees with falsy nodes and grid owners in every locator-cache state.",
       "grid cache length is not modelled (re-linking is unconditional in the model); the component queries (getComponent, "
       "getComponentByName, ...) and the container protocol are oracle-only.")
extend("C16",
       "makeParametersReadOnly is modelled as the walk over the reactor's child lists: every reachable node in any system is "
       "read-only, any later sequence of assignment, unlock or scope attempts is refused and the state is unchanged "
       "(readonly_tree_refuses); material caches are in the model (material_cache_restored). Tied on reactors whose spent fuel pool "
       "and ex-core structures hold assemblies, with every reachable object probed, also after Database.loadReadOnly.",
       "loadReadOnly is oracle-only; a material is an object without definitions; only a sample of materials and of read-only "
       "attempts goes through the model, while the oracle judges all.")
extend("C07",
       "Nesting at arbitrary depth (global centre/base/top are sums along the ancestor chain, through theta-R-Z levels too); the "
       "addingIsValid contract proved for every grid from its constructor arguments (axial-in-axial and lattice children keep their "
       "own indices); the label codec round-trips for all non-negative indices and for every hex cell. Tie: every (parent kind, "
       "child kind) pair of 10 grid kinds plus seeded depth 2-4 nestings, label strings, and locator-object round trips.",
       "labels are modelled over digits and '-' (Python int() extras are not); getCompleteIndices under a free-coordinate parent "
       "inside a grid is outside the tie. Source tie proved for numPositionsInRing, totalPositionsUpToRing, "
       "HexGrid.getPositionsInRing/indicesToRingPos/getRingPos/_indicesAndEdgeFromRingAndPos/getIndicesFromRingAndPos/"
       "getNeighboringCellIndices, ThetaRZGrid.getRingPos/getIndicesFromRingAndPos, CartesianGrid.getPositionsInRing; not "
       "established (outside the translatable subset: float sqrt, 0.5 offsets, itertools) for numRingsToHoldNumCells, "
       "HexGrid.getMinimumRings, CartesianGrid.getRingPos/getMinimumRings - correspondence only.", SRC_TECH)
extend("C08",
       "Every child of a rotated block is rotated on its own (independent of the others, children stay distinct, site multisets are "
       "the rotated multisets, child order irrelevant); HexAssembly.rotate is per-block rotation behind the 60-degree guard. Tied on "
       "blocks with 2-4 pin types from blueprint lattice maps and built by hand (shared locators), k in 0..11 plus sequences, and "
       "assemblies of them with refused angles.",
       "the float remainder rad % (pi/3) is a parameter of the guard. Source tie for HexGrid._getSymmetricIdenticalsThird, "
       "overlapsWhichSymmetryLine, isInFirstThird (+ indicesToRingPos); rotateIndex (deque) and getIndexOfRotatedCell (float) "
       "correspondence only.", SRC_TECH)
extend("C15",
       "TightCoupler bookkeeping and _performTightCoupling over coupler objects are modelled: the number of rounds is proved to be "
       "min(run cap, first all-converged round + 1) whatever maxIters or counter each coupler carries, tied function-level to real "
       "couplers; expandRepeatedFloats is modelled and characterised; event dispatch with excluded names is tied through the public "
       "interactAll* methods.",
       "stepLength/power inside hooks are oracle-only; MPI workers are not modelled. Source tie for all five node-arithmetic "
       "functions of armi/utils including the two loops (getBurnSteps(cs) enters as a list parameter); the schedule (Operator) "
       "remains correspondence only.", SRC_TECH)
extend("C06",
       "Histories over arbitrary selections of steps x parameters through Database, DatabaseInterface and HistoryTrackerInterface "
       "are proved to return value-or-default for every sequence of assignments, clock changes and writes, also for parameters that "
       "had no dataset when a step was written (history_value_or_default, writeP_storedValue); a completed restart run holds exactly "
       "the earlier steps of the reload database, unchanged, then its own nodes and EOL (restart_run_spec). Tied to forked-child "
       "histories on HDF5 and to real restart runs at every node.",
       "one object type per modelled history; preloaded block histories oracle only; crash_file_spec for restart runs assumes the "
       "merged history holds no error snapshot of the failing node; syncToSharedFolder is not modelled.")
extend("C10",
       "Every reachable target stays in the theorems' domain, so merges after rejected merges are covered; what a rejected merge can "
       "touch is bounded (metadata kept, target labels a prefix, untouched nuclides identical); dropping a file-wide chi leaves every "
       "fissile nuclide with its own chi; createMacrosFromMicros as a whole and computeMacroscopicGroupConstants (also with multLib) "
       "equal the defining sums over the effective composition, nuclide-order-invariant; block-average chi equals its defining sum. "
       "Tied additionally on every conflict kind x position, go-on sequences after rejections, file-wide chi state by state, and the "
       "working-directory merge flow.",
       "order independence, union and identity are proved only for libraries without a file-wide chi; higherOrderScatter, "
       "nOrderProductionMatrix and diffusionConstants are oracle-only; 'rejected => unchanged' is proved only for the rollback "
       "variant (mergeAtomic, a candidate fix not applied) and for the first-nuclide / first-property cases; file selection and file "
       "I/O of mergeXSLibrariesInWorkingDirectory are oracle-only on scratch copies.")
extend("C11",
       "_computeAverageAxialMesh / generateCommonMesh are in the model (averageAxialMesh_spec, generateCommonMesh_spec) and tied on "
       "whole cores; the public convert() / applyStateToOriginal() path of the neutronics and gamma converters is exercised end to "
       "end in both directions, both paths, for every parameter the converter lists, oracle-checked per assembly and model-compared "
       "on sampled pairs.",
       "reaction-rate recalculation and XS-type selection are outside the model.")
extend("C12",
       "The top block absorbs the change by position whatever it contains (top_block_by_position); ExpansionData's stored factors "
       "(setExpansionFactors validation and assignment, getExpansionFactor) with one ExpansionData re-used over successive steps and "
       "the fresh-per-step route are modelled and proved equal for unambiguous histories (runReuse_eq_runFresh); densities divide by "
       "the product of factors over any sequence with no hypothesis; every closed sequence (g, 1, 1/g) restores heights, densities "
       "and masses; the thermal factor dispatch (updateComponentTemp, updateComponentTempsBy1DTempField block averages, "
       "computeThermalExpansionFactors) is modelled. Tied call by call, step by step and history by history on fixture, "
       "constructor-built and blueprint-edited assemblies, including top dummy blocks that carry solids.",
       "manageCoreMesh and expandColdDimsToHot are oracle-only (their re-meshing belongs to C11).")
extend("C13",
       "Below block level: a transcription of deepcopy + rotate for blocks, pin lattices, lattice owners and pin sites; in every "
       "state reachable by any sequence of the four operations no two assemblies share a block or lattice (no_shared_node, "
       "clean_run), every copy owns its lattices, its pins are the source's turned by the copy's angle (index level and Euclidean, "
       "pin_global_turn_120/240), and everything below an original assembly is unchanged (sources_untouched_run); scaling the centre "
       "down undoes scaling up for None, list, scalar and array values (scaleVal_down_up). Tied on two reactors (reference reactor "
       "and anl-afci-177, auto-created and partial pin lattices) by first-encounter object naming after every operation, real "
       "getGlobalCoordinates of pins, whole-graph identity disjointness for sampled orbits, every stored parameter after restore, and "
       "every volume-integrated parameter after convert.",
       "CoordinateLocation children are checked in global coordinates only; the object graph below components is checked by identity "
       "on the real copies only; pins are sampled; blueprint-defined lattices are emulated by partial lattices.")
extend("C14",
       "SpentFuelPool._getNextLocation transcribed and proved to always find the first free pool cell and never an occupied one; the "
       "oracle also checks placement below block level (parents, axial grid, lattice owner, pin coordinates follow the assembly) and "
       "that pool cells are distinct.",
       "numMoves/lastLocationLabel bookkeeping, the FuelHandler.moved list, and symmetry-factor rescaling on moves are not modelled.")
extend("C17",
       "Write/read is the identity in all three styles for every settings object reachable by any history of assignments, reverts, "
       "default changes, copies (deepcopy/duplicate/pickle) and modified(); copies hold their original's values and 'at default' is "
       "derived from value = default; for All(Coerce(int|float), Range) schemas (scalars and lists) the schema is modelled as "
       "coerce-then-validate and proved sound and a fixpoint. Tied additionally by copy histories written and read back and by "
       "near-miss boundary values per setting through assignment and file read (an accepted value must read back equal).",
       "string/dict/option schemas and YAML formatting remain parameters; a locally changed default is not visible to a fresh reader.")
extend("C18",
       "The class that writes a grid blueprint is the one reading dispatches to (corners-up full <=> tips-up), and corners-up full "
       "lattices with the anchor cells occupied are saved and read back index-for-index; link resolution and the pin-to-duct check "
       "are invariant under permutation of a block's component declarations. Tied by save/reload for all 12 supported (geom, "
       "symmetry) combinations and by pin blocks and generated documents rebuilt in permuted declaration orders.",
       "verifyBlockDims is modelled for Hexagon ducts only.")
extend("C19",
       "MCNP and AAAZZZS ids of every table row decode to (z, a, state) by proved decoders that are also applied to the "
       "implementation's own ids; elemental nuclides never share an identifier with each other or with an isotope; for materials "
       "using the base-class formulas, positive density and pseudo-density follow by theorem from a positive reference density and "
       "expansion above -100 %, with the hypotheses evaluated on the real objects; materials are resolved by name and through "
       "ordered plugin namespaces; temperature grids include candidate switch points taken from the source literals.",
       "expansion correlations remain sampled data. Source tie for the integer part of NuclideBase.getMcnpId / getAAAZZZSId (format "
       "template compared as data); _createLabel and the table remain regenerated-data / correspondence.", SRC_TECH)
extend("C20",
       "The manager-level flow is modelled and proved as well: group-bound validation and the interval meaning of a group index; the "
       "whole-list environment update (total with <= 53 numbers, pointwise, refused above 52); eligibility by flags; two-pass grouping "
       "(blueprint-only copies never join core groups); represented / unrepresented / pre-generated status; the frame condition of "
       "_modifyUnrepresentedXSIDs and identical candidate lists on a second call; getNextAvailableXsTypes and the one-to-one id map of "
       "_getModifiedReprBlocks; the component temperature with its zero-mass fall-back; nuclide temperatures from raw per-component "
       "terms with trace densities; the 1-D cylinder/slab area-weighted average; the by-component decision. Tied at function level "
       "and end to end through interactBOC / interactEveryNode, twice and after block-type changes, on the reference reactor.",
       "LFP handling and deep copies; copying of pre-generated files; slab geometry has no fixture (its averaging routine is tied at "
       "function level); no source tie: the label functions are string code outside the translatable subset.")

extend("C03",
       "Also proved about the code's state: the component, and a block of linked components with a derived shape, are executable "
       "state machines with their caches (p.volume, clearLinkedCache sweep, derivedMustUpdate); for any history of queries, "
       "temperature changes, material swaps and dimension edits (incl. retained links) every cached volume equals current area x "
       "height, the derived shape closes the block through area and volume reads, a material swap forgets the previous material, and "
       "the end state depends only on the final temperature. Tied on every run by replaying seeded call histories (all shape classes "
       "incl. area-defined, bare / in blocks / warmed caches / derived coolant / link chains) on model and code, every returned value "
       "compared. One repaired defect (b30c1b1) is stated exactly as a theorem (coded_sweep_misses_chain).",
       "block height and max area are constants of a history; applyMaterialMassFracsToNumberDensities enters as 'densities replaced'; "
       "a raising DerivedShape.getVolume is excluded.")
extend("C02",
       "Additivity and mass = density x volume are proved by structural induction for composite trees of arbitrary depth; "
       "adjustMassFrac's dict (adjusted total, held nuclides constant) and HexBlock.getSymmetryFactor in {1,2,3} are modelled, proved "
       "and compared function-level.",
       "nucDir.getNuclideNames is a parameter; held shares are >= 1e-3 because of rounding amplification.")
extend("C04",
       "The round trip is also proved on the columns of the layout group (cols_roundtrip); a database file is modelled as a map from "
       "group name to statepoint, and every statepoint of any accepted write history loads to the state at its own write, with "
       "occupied addresses refused (multi_statepoint_roundtrip, get_write_other); on load the saved parameter value wins over the "
       "blueprint value (load_param_saved_not_blueprint); both child orders (ArmiObject and Component __lt__) are modelled and proved "
       "asymmetric. Tied additionally to getH5GroupName, write/load histories on a real file, _assignBlueprintsParams, malformed "
       "_unpackLocations input and sorted(components); the oracle additionally runs inputs whose blueprints assign parameters (values "
       "changed after construction), an every-parameter sweep and multi-statepoint files with layout-borne edits and tree changes.",
       "h5py group independence and Assembly.add's locator override for blocks are oracle-only; the two diameter getters behind "
       "Component.__lt__ are parameters.")
extend("C05",
       "The main theorem's hypotheses are decidable predicates evaluated by the model on every generated list (write_read_decided, "
       "in_domain_decided).",
       "Text beyond ASCII / NUL is oracle-only; trailing-NUL strings are a listed finding.")
extend("C09",
       "Each of the 13 file types (and variants) has a record schema in a small schema language (int/long/real/double/string fields, "
       "counted lists and matrices, conditional fields, optional records, counted loops, all bounds computed from header values read so "
       "far); read-back, framing (count = payload length) and byte-identical rewrite are proved by induction over that language for "
       "every schema (binary; ASCII modulo the measured float-parse hypothesis). On every run, for 20 format entries x {binary, ASCII} "
       "on generated containers and all shipped fixtures, the file each schema writes from the container's values equals the real "
       "file byte for byte. Generated containers have heterogeneous per-item counts below the file maxima, every optional record the "
       "readers accept, and shuffled dict order.",
       "how a container's attributes map onto the value sequence (sparse-matrix flattening, adjoint group order) is tied at function "
       "level and by the oracle, not proved; NotImplementedError branches and the broken COMPXS record variants (findings) are outside "
       "the schemas.")

# round 2 of the continuation
extend("C20", "", "Source tie for both label functions on the admissible labels (finite domain, kernel-evaluated; bijection corollary over the "
       "translated definitions); numbers >= 1300 that are not label images: correspondence only.", SRC_TECH)
extend("C09", "", "Source tie for getBlockBandwidth only (all integers; the blocks tile the columns; the schemas' block-width expression is "
       "the code's jU - jL + 1); record readers/writers remain correspondence.", SRC_TECH)
extend("C04", "", "Source tie for getH5GroupName, cycle and node < 100 (injective, parsed back by the cXXnYY pattern).", SRC_TECH)
extend("C06", "", "Source tie for getH5GroupName, cycle and node < 100.", SRC_TECH)
extend("C08", "", "HexGrid.rotateIndex is now source-tied as well (all integers; additive, identity at 6, ring-preserving, k*60 degrees; "
       "consistency of the locator's grid enters as a boolean).")
extend("C07", "", "CartesianGrid.getRingPos is now source-tied as well (0.5 offsets carried as doubled integers; inputs < 2^45).")
extend("C14", "", "No source tie: SpentFuelPool._getNextLocation is object code outside the translatable subset.")
extend("C13",
       "Copies of sources that were rotated before the conversion: orientation = source + turn and every per-corner / per-edge vector "
       "pivoted by the copy's own turn alone (copyBlock_boundary, convert_copies_boundary), compared per block with the real core after "
       "every operation over all nine CORNERS/EDGES parameters; redundant calls on the same changers are no-ops on state and bookkeeping "
       "(redundant_call_noop, restore_convert_convert, restore_restore), tied by phrase-generated sequences with the changer bookkeeping "
       "in the compared state.",
       "zone membership of copies and zone restoration are checked on the real core only; all blocks of a generated assembly share one "
       "orientation.")
extend("C12",
       "Shared composition objects are modelled (changeAll_spec: one scaling per component for any sharing pattern) and tied; target "
       "designation is modelled as a function of the current blocks (isTarget_after_redesignation) and tied on re-designated blocks with "
       "fresh ExpansionData instances.", "")
extend("C11",
       "The mass-conserving height change is modelled component by component with volume caches (setHeightOne_cache_independent, "
       "setHeightOne_atoms) and tied from arbitrary cache states.",
       "cache invalidation by temperature or dimension changes is oracle-only.")

extend("C10",
       "Libraries without nuclides (built so or purged) still hand their group structure and file metadata over to an empty target and "
       "are rejected on a structure or metadata conflict in every order (merge_nuclide_free_conflict_rejected, merge_into_empty_target); "
       "createMacrosOnBlocklist over blocks with different nuclide sets; every callee of the merge compared with its model definition "
       "function by function.", "")
extend("C01",
       "Every list a query hands back is mutated or kept by the caller without the tree noticing; the re-ordering and "
       "remove-while-iterating idioms are ops, with setChildren_exact, reorder_idiom and drain_idiom proved; after every edit, every "
       "direct-children query on the edited parent is re-asked and compared with the raw child lists (typed_queries_follow_edits); "
       "setType/flag changes and clearCache are part of the histories; a raise out of the real code is a keyed failure with a replay.",
       "query results are values in the model, so aliasing and stale per-object caches are carried by the oracle plus the idiom theorems; "
       "the reorder idiom is not run on the Core object itself.")
extend("C20",
       "By-component averaging is judged like with like: blockSimilarity_positions proves that it is chosen only when flags agree at every "
       "shared sorted position; generated members with permuted radial order (annular/solid slugs), missing components and mixed "
       "weightings are judged on the representative actually built.", "")
extend("C19",
       "The density and expansion correlations that are piecewise polynomials are regenerated from the source by symbolic execution on "
       "every run (Gen/MaterialTable.lean) and proved by kernel-checked interval Horner arithmetic to be positive (densities) or bounded "
       "(expansions) at every temperature of the stated range (correlations_bounded, base_formula_densities_positive); the remaining "
       "correlations (fractional powers, rational functions, no stated range) stay sampled and are named in the evidence.",
       "extraction by symbolic execution is validated by sampled correspondence (1250 points per quick run), not proved; theorems are over "
       "rationals, not floats.")

extend("C09",
       "ASCII read-back and byte-identical rewrite are proved without assumptions about the host: format(.16E) and float() are both "
       "modelled (parseEText, roundToDouble, eText) and compared with Python on every run, each ASCII field's accepted domain is a "
       "decidable predicate, and rwLong has the empty ASCII domain (file_roundtrip_ascii, schema_roundtrip_ascii); whole-block ISOTXS "
       "scatter storage, COMPXS scatter columns and the adjoint group reversal are proved inverse maps (scat_roundtrip, "
       "compxs_column_roundtrip, adjointOrder_involutive); second-generation cycles (read -> write -> read -> write) run for every format.",
       "not proved: float(format(x)) = x for all doubles (a per-value decidable domain condition, evaluated on the values written); "
       "double->single rounding of rwFloat; sparse-container internals beyond the index maps.")
extend("C17",
       "An options-enforcing setting accepts exactly its current option list however it was filled (definition, plugins, repeated "
       "additions; optSchema_enforced_iff, outside_options_rejected_after_add), and a copy made with an empty modification set is a new, "
       "mutually independent object (modified_empty_is_independent_copy). Tied by run-time option additions on every setting with "
       "options, by plugins registered with the application (neutronicsKernel), and by independence probes (assign / revert / write to "
       "another path) for every copy route.",
       "an all-default Settings written in full style is unreadable once a plugin contributes kernel options (listed finding).")
extend("C18",
       "A custom-isotopics density on a library solid gives the mass the input text describes under either height convention (exponent 2 "
       "resp. 3; custom_density_mass_is_input_mass), and third-core maps with edge assemblies on the 120-degree line load, keeping every "
       "first-third entry, and are refused only for locations outside the first third (loadThird_keeps_domain, loadThird_refuses_iff). "
       "Tied at ComponentBlueprint.construct level for both conventions, by assembly-level mass for the default convention, and by "
       "generated third-core documents with edge and outside cells.",
       "assembly-level mass under cold input heights is not predicted here (it depends on the axial expansion of C12).")
extend("C07",
       "The label codec round-trips for all integer indices (any size, any sign; decoder as repaired by 9ee1acd); global coordinates "
       "compose along the chain in either coordinate kind (nativeCoords), through theta-R-Z ancestors at any height "
       "(nested_coords_add_TN).", "cos / sin of theta-R-Z levels are parameters.")
extend("C08",
       "All symmetry and rotation functions are proved and tied on three-index arguments (the axial index is irrelevant and preserved, "
       "the centre cell at any k is its own orbit, 3-D hex rotation is about z), in every argument form.", "")
extend("C04",
       "Any interleaving of writes, deletes and re-writes on one file refines the partial map address -> statepoint (run_refines_spec), "
       "incl. addresses differing only by label; tied to write/delete/load histories through one long-lived and a fresh Database object "
       "with layout-borne and parameter-borne markers.",
       "stationary blocks keep their old name after a swap, so name and assemNum differ after load (listed finding).")
extend("C05",
       "With entries of differing numeric kind the stored dtype is numpy's promotion of all entries and is floating whenever an entry is "
       "(promoteAll_float, jagged_keeps_real_kind); tied to the real dataset dtype, values compared numerically on per-object-kind lists "
       "of every container shape.", "int->real casts of the values are numpy's (oracle only).")
extend("C06",
       "Location-based histories, per location and batched, are modelled and proved to give each location the value of its occupant per "
       "step whatever the order of the request and of the stored rows (locHistories_lookup, writePL_location_value); deletion and loading "
       "are isolated per (cycle, node, label) (delete_exact) and tied through six label-taking routes; an aborted restart run keeps the "
       "merged history.",
       "the location pseudo-parameter and preloaded block histories are oracle-only.")

extend("C03",
       "setLink after construction is modelled and proved to establish the link whatever the previous value (number or link, equal or "
       "not), and to follow the target through any later history that does not rewrite that dimension (setLink_establishes, "
       "setLink_follows_any); inherited expanding dimensions (Square, pass-through subclasses) and links held by expanding solids are "
       "judged on every run; two repaired defects (b30c1b1, a226651) are stated exactly as theorems.", "")
extend("C02",
       "The setter/getter contract is proved for uniform nesting of any depth by induction on the depth (lvlLawful); no theorem assumes "
       "positive child volumes (volFrac_sum_one for signed volumes), and blocks with negative gaps (generated, and in the reference core "
       "at centre/edge/ordinary positions) are compared at every level; dummy nuclides, exact-zero requests, mergeWithBlock and getMasses "
       "are judged.",
       "getMasses is oracle-only; the core-level model comparison for the negative bond runs only in thorough.")

extend("C18",
       "A block design stacked at several axial positions keeps the attributes given for each position "
       "(repeated_design_keeps_own_xs; tied by generated stacks with repeated designs whose per-position attributes coincide in all but "
       "one, every block compared at its own index).", "")
extend("C12",
       "Linkage is decided on cold dimensions: stacks with tight cold gaps are linked at every temperature exactly as at Thot = Tinput "
       "(tied against the model's cold-dimension linkage); long sequences of near-unity growth conserve mass to round-off; a raise out "
       "of the real code on a valid assembly is a keyed failure.", "")
extend("C06",
       "For every crash point the error snapshot's address is judged against the reference schedule (also inside beginning-of-cycle "
       "hooks of later cycles); labels are drawn from an alphabet with leading digits, dashes, 'n' and 'c'.", "")

NOT_YET = {}

ALL = [f"C{n:02d}" for n in range(1, 21)]


def main():
    checks = []
    for pid in ALL:
        if pid in CLAIMED and os.path.exists(os.path.join(VERIF, "harness", pid.lower() + ".py")):
            text, note, tech = CLAIMED[pid]
            checks.append({
                "property_id": pid,
                "quick_cmd": f"./check {pid} quick",
                "thorough_cmd": f"./check {pid} thorough",
                "evidence_file": f"evidence/{pid}.json",
                "replay_cmd_template": f"./check {pid} --replay {{path}}",
                "engine": "lean-model+corr-harness",
                "level_claimed": {"category": "proof", "text": text, "design_ref": f"DESIGN.md section 5 ({pid})"},
                "level_note": BASE_NOTE + "Modelled, not verified: " + note,
                "technique": tech,
            })
    na = [{"property_id": pid,
           "reason": NOT_YET.get(pid, "check not built yet in this round (design in DESIGN.md section 5); not claimed until its "
                                      "Lean model, theorems and correspondence harness are committed")}
          for pid in ALL if pid not in [c["property_id"] for c in checks]]
    man = {
        "version": 1,
        "setup_cmd": "cd lean && lake build",
        "hooks": {
            "guard": "TERRAPOWER_ARMI_VERIF",
            "enable": "no hooks: every property is observed through armi's public API; checks import armi from /repo's working tree",
            "baseline_off_cmd": "cd /repo && /venv/bin/python -m pytest -ra -q -p no:cacheprovider --timeout=900 --continue-on-collection-errors",
            "source_commits": [],
            "add_only": True,
        },
        "engines": [
            {"name": "lean-model", "path": "lean/", "serves_properties": [c["property_id"] for c in checks],
             "kind_free_text": "Lean 4 executable models (lean/ArmiVerif/Model), property theorems (lean/ArmiVerif/Props), line-protocol drivers (lean/Drivers)"},
            {"name": "corr-harness", "path": "harness/", "serves_properties": [c["property_id"] for c in checks],
             "kind_free_text": "Python correspondence harness: drives the real armi code and the Lean model with the same inputs, diffs canonical outputs, evaluates the property clauses on the real objects, searches for failing inputs"},
        ],
        "checks": checks,
        "notes": "See DESIGN.md. KNOWN_FINDINGS.txt lists genuine defects of the pinned tree (printed as KNOWN-FINDING lines).",
        "not_applicable": na,
    }
    with open(os.path.join(VERIF, "MANIFEST.json"), "w") as f:
        json.dump(man, f, indent=1)
    print("claimed:", [c["property_id"] for c in checks])


if __name__ == "__main__":
    main()
