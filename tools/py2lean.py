#!/venv/bin/python
"""py2lean - translate a restricted, documented subset of Python to Lean 4 definitions over `Int`.

Used by harness/srctie.py on every check run: the CURRENT source text of $ARMI_REPO (default /repo) is
parsed with `ast` (armi is not imported), every target function of TARGETS is looked up by qualified
name and translated to `lean/ArmiVerif/Gen/Src.lean` (one namespace per Python module).  The theorems of
`lean/ArmiVerif/Props/SrcTie/*.lean` relate each generated definition to the hand-written model
definition the property theorems are about, so that what the kernel checks is a statement about what
the code says NOW.  Anything outside the subset is refused:

    untranslatable: <function>: <construct>

and NO definition is emitted for that function (never a guess).  The translator itself is validated on
every run by differential execution (generated Lean definition vs the real Python function, same
inputs; harness/srctie.py).

THE SUBSET
----------
functions   module-level `def`, `@staticmethod`, `@classmethod` (cls dropped) and plain methods (self
            dropped).  No other decorators, no *args/**kwargs, no nested defs/lambdas, no recursion.
            `self.<attr>` / `<param>.<attr>` / `self.<method>()` are accepted ONLY when the target's
            `binds` table names that exact source expression as an extra int/bool/tuple/list-of-int
            parameter ("named attributes passed as parameters"; also `getBurnSteps(cs)` for an opaque
            settings object `cs`: the burn steps become a `List Int` parameter).  `self.f(...)`, `Class.f(...)`, `f(...)`,
            `module.f(...)` are calls of other translated functions (of the same class / module / an
            imported armi module found on disk); the callee is translated first; if the callee is
            untranslatable so is the caller.
types       int (Lean `Int`), bool (`Bool`; conditions are rendered as decidable `Prop`s), fixed-length
            tuples of these (`A × B × C`), list LITERALS of these (`List A`), lists of ints (`List Int`:
            `[e for x in xs]`, `xs[:k]`, `xs[k:]`, `xs[k]` (IndexError = raise), `sum`, `len`),
            `None` as a returned value (`Option A`).  Parameter types: annotation `int`, `bool`, `IJType`
            (int,int), `IJKType` (int,int,int), else the target's `types` table, else int.
expressions int literals; `True/False/None`; names (locals, parameters, module-level int constants of the
            same module or imported with `from m import NAME`); `+ - *`, unary `- +`; `//` and `%` as
            FLOOR division / modulo: `Int.fdiv` / `Int.fmod` (a non-literal divisor gets an explicit
            `if d = 0 then none` guard = ZeroDivisionError); `**` with a literal non-negative exponent
            (`^` with a `Nat` literal); comparisons incl. chains, `==`/`!=` on equal-shape tuples,
            `in`/`not in` a tuple literal; `and/or/not` on bools (on ints only in condition position:
            truthiness `≠ 0`); `a if c else b`; tuple literals, `t[k]`, `t[a:b]` with literal k, a, b;
            list literals; `abs`, `min`, `max`, `int(x)` on an int, `bool(x)`, `divmod`, `len(tuple)`.
statements  assignment to a name or to a flat tuple of names, augmented assignment, `if/elif/else`,
            `return`, `raise` (any exception ↦ `none`), `assert`, `pass`, docstrings;
            `for v in range(a[, b])` without break/continue/else and without assigning v: an auxiliary
            definition by STRUCTURAL recursion on the exact number of iterations (no fuel bound needed; an
            early `return` is `Sum.inl`, completion `Sum.inr` of the loop-carried locals).  The statements
            after an `if` are duplicated into both branches (no join encoding); a size cap refuses
            pathological cases.
raising     a function that can raise has result type `Option T`; every exception kind is the single
            value `none` (`reject` in the driver protocol).  A call of a raising function, or a guarded
            division, is accepted only where Python evaluates it unconditionally within its statement
            (not under `and`/`or`/`if-else` operands) - otherwise refused.

half-integers  float literals that are multiples of 0.5 and sums / differences / int multiples / comparisons of them
            with ints, and `int(x)` (truncation toward zero, `pyTruncHalf`), are carried EXACTLY as the integer 2x.
            This is the double arithmetic of Python as long as every value stays below 2^52 in magnitude (doubles
            represent those half-integers exactly and the operations are exact); the differential validation and
            the claimed domain of such functions are bounded accordingly (inputs below 2^45: beyond 2^49 the real
            `CartesianGrid.getRingPos` itself loses the last bit of `7 * ring + j`).  Other float code is refused.
small strings  a `str` is the `List Int` of its code points: literals, a `str` parameter, `str(int)`,
            `"{:0Nd}".format(int)` as a value, `"".join(e for c in s)`, `ord(c)` of an iterated character or a
            one-character literal, `chr(int)` (ValueError = raise), `len`, `s[k]`, `s[:k]`, `s[k:]`, `+`, `==`/`!=`,
            and `int(s)` ONLY for strings known to consist of decimal digits and a sign (built from the
            above decimal constructors) - Python's int() accepts more (spaces, `_`, other digit scripts) and is
            refused elsewhere.  `try: BODY except X: <expression statements>; raise` is BODY (all exceptions
            are the one value `none`).  Returned format strings of ints: `return "<template>".format(ints...)` / `return f"...{int:spec}..."`.
            The definition returns the tuple of the integer arguments; the template is data, applied by the
            harness in Python when comparing with the real function's string.
REFUSED (examples): floats and `/` (so `int(x / y)`, `math.sqrt`, `0.5` are refused, not guessed),
other strings (`str`, `chr`, `ord`, slicing, `join`), `while` loops, `for` over anything but `range`,
`break`/`continue`, other comprehensions, `try`, `with`, attribute access that is not bound, calls of
anything not translated (`itertools`, `numpy`, `math`, logging; `deque` only as a fixed-length tuple with `.rotate`
and literal indexing; a constructor only when the target's `ctors` table reads it as a tuple), bit operators, `is`, starred or
nested unpacking, variable exponents, arithmetic on bools, recursion, names that may be unbound,
expression statements (possible side effects).
NOT MODELLED (stated, validated only by the differential run): dynamic dispatch (`self.f` is resolved to the
class the target names), rebinding of builtins / module constants at run time, exception KINDS (all `none`).
"""
from __future__ import annotations

import ast
import hashlib
import os
import sys

VERIF = os.path.dirname(os.path.dirname(os.path.abspath(__file__)))
GEN_PATH = os.path.join(VERIF, "lean", "ArmiVerif", "Gen", "Src.lean")

INT, BOOL, NONE = ("int",), ("bool",), ("none",)
HALF = ("half",)      # a float that is an exact multiple of 0.5, carried as the Int 2*x (see `half-integers` in the docstring)
STR, CHAR = ("str",), ("char",)      # a string = `List Int` of code points; a char = one element of an iterated string


def TUP(*ts):
    return ("tuple", tuple(ts))


def LIST(t):
    return ("list", t)


def OPT(t):
    return ("opt", t)


T2, T3 = TUP(INT, INT), TUP(INT, INT, INT)
ANNOT = {"int": INT, "bool": BOOL, "IJType": T2, "IJKType": T3, "str": STR}
MAX_NODES = 6000
LEAN_RESERVED = {
    "at", "from", "end", "in", "then", "else", "fun", "do", "let", "have", "show", "by", "match", "with", "if",
    "open", "def", "theorem", "where", "from", "instance", "class", "structure", "namespace", "section", "Type",
    "Prop", "Sort", "min", "max", "some", "none", "true", "false", "True", "False", "Int", "Nat", "Bool", "List",
    "Option", "decide", "not", "and", "or", "deriving", "private", "partial", "mutual", "variable", "universe",
    "import", "export", "macro", "syntax", "notation", "infix", "prefix", "postfix", "using", "calc", "this",
    "termination_by", "decreasing_by", "return", "for", "while", "unless", "try", "catch", "finally", "mut",
    "pyAbs", "pyTake", "pyDrop", "pyIdx", "pySum", "pyStr", "pyFmtD", "pyFmtFill", "pyTruncHalf", "pyIntOfStr", "pyChr", "showRaise", "dispatch",
}


class Refuse(Exception):
    """construct outside the subset"""


class Target:
    def __init__(self, file, qual, types=None, binds=None, ctors=None):
        self.file, self.qual = file, qual
        self.ctors = dict(ctors or {})      # class name -> n: `Cls(a1..an, ...)` is translated as the tuple (a1..an)
        self.types = dict(types or {})
        self.binds = dict(binds or {})      # source expression (ast.unparse form) -> (param name, type)
        # a bound expression may be an attribute (`self.z`), a method call (`self._isThroughCenter()`) or a call
        # of a module-level function on an object parameter (`getBurnSteps(cs)`); the object parameters they
        # mention ("opaque roots") are dropped from the Lean signature

    @property
    def key(self):
        return f"{self.file}::{self.qual}"


# the functions the property theorems depend on (the harness's TIES table says which property uses which)
TARGETS = [
    Target("armi/utils/hexagon.py", "numPositionsInRing"),
    Target("armi/utils/hexagon.py", "totalPositionsUpToRing"),
    Target("armi/utils/hexagon.py", "numRingsToHoldNumCells"),
    Target("armi/utils/hexagon.py", "getIndexOfRotatedCell"),
    Target("armi/reactor/grids/hexagonal.py", "HexGrid.indicesToRingPos"),
    Target("armi/reactor/grids/hexagonal.py", "HexGrid._indicesAndEdgeFromRingAndPos"),
    Target("armi/reactor/grids/hexagonal.py", "HexGrid.getIndicesFromRingAndPos"),
    Target("armi/reactor/grids/hexagonal.py", "HexGrid.getPositionsInRing"),
    Target("armi/reactor/grids/hexagonal.py", "HexGrid.getMinimumRings"),
    Target("armi/reactor/grids/hexagonal.py", "HexGrid.getRingPos"),
    Target("armi/reactor/grids/hexagonal.py", "HexGrid.getNeighboringCellIndices"),
    Target("armi/reactor/grids/hexagonal.py", "HexGrid.overlapsWhichSymmetryLine"),
    Target("armi/reactor/grids/hexagonal.py", "HexGrid._getSymmetricIdenticalsThird", types={"indices": T3}),
    Target("armi/reactor/grids/hexagonal.py", "HexGrid.isInFirstThird",
           binds={"locator.indices": ("locatorIndices", T3)}, types={"includeTopEdge": BOOL}),
    Target("armi/reactor/grids/hexagonal.py", "HexGrid.rotateIndex", types={"rotations": INT},
           binds={"self._roughlyEqual(loc.grid) or loc.grid is None": ("consistent", BOOL), "loc[:3]": ("locIndices", T3)},
           ctors={"IndexLocation": 3}),
    Target("armi/reactor/spentFuelPool.py", "SpentFuelPool._getNextLocation"),
    Target("armi/reactor/grids/thetarz.py", "ThetaRZGrid.getRingPos", types={"indices": T3}),
    Target("armi/reactor/grids/thetarz.py", "ThetaRZGrid.getIndicesFromRingAndPos"),
    Target("armi/reactor/grids/cartesian.py", "CartesianGrid.getPositionsInRing",
           binds={"self._isThroughCenter()": ("throughCenter", BOOL)}),
    Target("armi/reactor/grids/cartesian.py", "CartesianGrid.getRingPos", types={"indices": T2},
           binds={"self._isThroughCenter()": ("throughCenter", BOOL)}),
    Target("armi/reactor/grids/cartesian.py", "CartesianGrid.getMinimumRings",
           binds={"self._isThroughCenter()": ("throughCenter", BOOL)}),
    Target("armi/utils/__init__.py", "getNodesPerCycle", binds={"getBurnSteps(cs)": ("burnSteps", LIST(INT))}),
    Target("armi/utils/__init__.py", "getCumulativeNodeNum", binds={"getBurnSteps(cs)": ("burnSteps", LIST(INT))}),
    Target("armi/utils/__init__.py", "getCycleNodeFromCumulativeNode", binds={"getBurnSteps(cs)": ("burnSteps", LIST(INT))}),
    Target("armi/utils/__init__.py", "getCycleNodeFromCumulativeStep", binds={"getBurnSteps(cs)": ("burnSteps", LIST(INT))}),
    Target("armi/utils/__init__.py", "getPreviousTimeNode", binds={"getBurnSteps(cs)": ("burnSteps", LIST(INT))}),
    Target("armi/nuclearDataIO/cccc/cccc.py", "getBlockBandwidth"),
    Target("armi/bookkeeping/db/database.py", "getH5GroupName"),
    Target("armi/nucDirectory/nuclideBases.py", "NuclideBase.getMcnpId",
           binds={"self.z": ("z", INT), "self.a": ("a", INT), "self.state": ("state", INT)}),
    Target("armi/nucDirectory/nuclideBases.py", "NuclideBase.getAAAZZZSId",
           binds={"self.z": ("z", INT), "self.a": ("a", INT), "self.state": ("state", INT)}),
    Target("armi/nucDirectory/nuclideBases.py", "NuclideBase._createLabel"),
    Target("armi/physics/neutronics/crossSectionGroupManager.py", "getXSTypeNumberFromLabel"),
    Target("armi/physics/neutronics/crossSectionGroupManager.py", "getXSTypeLabelFromNumber"),
]


# ------------------------------------------------------------------------------------------ types
def lean_type(t):
    k = t[0]
    if k == "int":
        return "Int"
    if k == "bool":
        return "Bool"
    if k == "str":
        return "(List Int)"
    if k in ("char", "half"):
        return "Int"
    if k == "tuple":
        return "(" + " × ".join(lean_type(x) for x in t[1]) + ")"
    if k == "list":
        if t[1] is None:
            raise Refuse("list whose element type cannot be determined")
        return f"(List {lean_type(t[1])})"
    if k == "opt":
        return f"(Option {lean_type(t[1])})"
    raise Refuse("a value of type None only")


def show_type(t):
    k = t[0]
    if k in ("int", "bool", "none", "str", "char", "half"):
        return k
    if k == "tuple":
        return "(" + ",".join(show_type(x) for x in t[1]) + ")"
    if k == "list":
        return "list[" + ("?" if t[1] is None else show_type(t[1])) + "]"
    return "optional[" + show_type(t[1]) + "]"


def unify(a, b):
    if a == b:
        return a
    if a == NONE and b[0] != "none":
        return b if b[0] == "opt" else OPT(b)
    if b == NONE:
        return unify(b, a)
    if a[0] == "opt" and b[0] != "opt":
        return OPT(unify(a[1], b))
    if b[0] == "opt" and a[0] != "opt":
        return OPT(unify(a, b[1]))
    if a[0] == "opt" and b[0] == "opt":
        return OPT(unify(a[1], b[1]))
    if a[0] == "list" and b[0] == "list":
        if a[1] is None:
            return b
        if b[1] is None:
            return a
        return LIST(unify(a[1], b[1]))
    if a[0] == "tuple" and b[0] == "tuple" and len(a[1]) == len(b[1]):
        return TUP(*[unify(x, y) for x, y in zip(a[1], b[1])])
    raise Refuse(f"values of different types meet: {show_type(a)} / {show_type(b)}")


class E:
    """translated pure expression. For t == BOOL `s` is a Lean Prop; otherwise a Lean term."""

    def __init__(self, s, t, elts=None, lit=None, dec=False):
        self.s, self.t, self.elts, self.lit = s, t, elts, lit
        self.dec = dec      # for strings: built only from str(int) / zero-padded decimal formats / digit literals


def as_val(e):
    if e.t == BOOL:
        if e.s == "True":
            return "true"
        if e.s == "False":
            return "false"
        return f"(decide {e.s})"
    if e.t == NONE:
        raise Refuse("None used as a value")
    return e.s


def coerce(e, t):
    """render e as a Lean term of type t (t is the unified type of all values meeting here)"""
    if e.t == t:
        if t[0] == "list" and e.elts is not None and not e.elts:
            return f"([] : {lean_type(t)})"
        return as_val(e)
    if t[0] == "opt":
        if e.t == NONE:
            return f"(none : {lean_type(t)})"
        if e.t[0] == "opt":
            raise Refuse("optional value re-wrapped")
        return f"(some {coerce(e, t[1])})"
    if t[0] == "list" and e.t[0] == "list" and e.elts is not None:
        if not e.elts:
            return f"([] : {lean_type(t)})"
        return "[" + ", ".join(coerce(x, t[1]) for x in e.elts) + "]"
    if t[0] == "tuple" and e.t[0] == "tuple" and e.elts is not None:
        return "(" + ", ".join(coerce(x, tt) for x, tt in zip(e.elts, t[1])) + ")"
    raise Refuse(f"cannot use a {show_type(e.t)} where a {show_type(t)} is expected")


def proj(e, k):
    n = len(e.t[1])
    if e.elts is not None:
        return e.elts[k]
    s = e.s
    path = ".2" * k + (".1" if k < n - 1 else "")
    t = e.t[1][k]
    if t == BOOL:
        return E(f"({s}{path} = true)", BOOL)
    return E(f"{s}{path}", t)


def lname(name):
    return name + "_" if (name in LEAN_RESERVED or name.startswith("tmp_")) else name


# ------------------------------------------------------------------------------------------ modules
class Module:
    def __init__(self, repo, rel):
        self.repo, self.rel = repo, rel
        path = os.path.join(repo, rel)
        with open(path) as f:
            self.text = f.read()
        self.tree = ast.parse(self.text)
        self.funcs = {}          # qual -> (FunctionDef, kind) kind in static/class/method/function
        self.consts = {}         # NAME -> int
        self.imported_names = {} # NAME -> (rel path, original name)
        self.module_alias = {}   # alias -> rel path
        self.classes = {}
        for node in self.tree.body:
            if isinstance(node, ast.FunctionDef):
                self.funcs[node.name] = node
            elif isinstance(node, ast.ClassDef):
                self.classes[node.name] = node
                for sub in node.body:
                    if isinstance(sub, ast.FunctionDef):
                        self.funcs[f"{node.name}.{sub.name}"] = sub
            elif isinstance(node, ast.Assign) and len(node.targets) == 1 and isinstance(node.targets[0], ast.Name):
                v = const_int(node.value)
                if v is not None:
                    self.consts[node.targets[0].id] = v
                else:
                    self.consts.pop(node.targets[0].id, None)
            elif isinstance(node, ast.ImportFrom):
                base = self._resolve_pkg(node.module, node.level)
                if base is None:
                    continue
                for a in node.names:
                    alias = a.asname or a.name
                    sub = self._find_module(base + "/" + a.name if base else a.name)
                    if sub:
                        self.module_alias[alias] = sub
                    else:
                        m = self._find_module(base)
                        if m:
                            self.imported_names[alias] = (m, a.name)
            elif isinstance(node, ast.Import):
                for a in node.names:
                    m = self._find_module(a.name.replace(".", "/"))
                    if m and (a.asname or "." not in a.name):
                        self.module_alias[a.asname or a.name] = m

    def _resolve_pkg(self, module, level):
        if level == 0:
            return (module or "").replace(".", "/")
        parts = os.path.dirname(self.rel).split("/")
        if level > 1:
            parts = parts[: len(parts) - (level - 1)]
        base = "/".join(parts)
        if module:
            base = base + "/" + module.replace(".", "/")
        return base

    def _find_module(self, relbase):
        if not relbase or not relbase.startswith("armi"):
            return None
        for cand in (relbase + ".py", relbase + "/__init__.py"):
            if os.path.isfile(os.path.join(self.repo, cand)):
                return cand
        return None

    @property
    def namespace(self):
        parts = self.rel[:-3].split("/")
        if parts[-1] == "__init__":
            parts = parts[:-1]
        n = parts[-1]
        return n[0].upper() + n[1:]


def const_int(node):
    if isinstance(node, ast.Constant) and type(node.value) is int:
        return node.value
    if isinstance(node, ast.UnaryOp) and isinstance(node.op, ast.USub):
        v = const_int(node.operand)
        return None if v is None else -v
    if isinstance(node, ast.UnaryOp) and isinstance(node.op, ast.UAdd):
        return const_int(node.operand)
    return None


def int_lit(v):
    return f"({v} : Int)" if v >= 0 else f"(-{-v} : Int)"


# ------------------------------------------------------------------------------------------ translator
class Translator:
    def __init__(self, repo, targets=None):
        self.repo = repo
        self.targets = {t.key: t for t in (targets or TARGETS)}
        self.order = [t.key for t in (targets or TARGETS)]
        self.modules = {}
        self.done = {}        # key -> result dict
        self.active = []

    def module(self, rel):
        if rel not in self.modules:
            self.modules[rel] = Module(self.repo, rel)
        return self.modules[rel]

    def translate_all(self):
        for k in list(self.order):
            self.translate(k)
        return self.done

    def translate(self, key):
        if key in self.done:
            return self.done[key]
        if key in self.active:
            raise Refuse("recursion")
        if key not in self.targets:
            f, q = key.split("::")
            self.targets[key] = Target(f, q)
            self.order.append(key)
        tgt = self.targets[key]
        self.active.append(key)
        res = {"key": key, "file": tgt.file, "qual": tgt.qual, "status": "untranslatable", "reason": "", "line": 0}
        try:
            try:
                mod = self.module(tgt.file)
            except (OSError, SyntaxError) as e:
                raise Refuse(f"source file cannot be read/parsed ({type(e).__name__})")
            fn = mod.funcs.get(tgt.qual)
            if fn is None:
                raise Refuse("function not found in the source file")
            res["line"] = fn.lineno
            ft = FnTranslator(self, mod, tgt, fn)
            res.update(ft.run())
            res["status"] = "translated"
        except Refuse as e:
            res["reason"] = str(e)
        except RecursionError:
            res["reason"] = "expression too deeply nested"
        finally:
            self.active.pop()
        self.done[key] = res
        return res


class FnTranslator:
    def __init__(self, tr, mod, tgt, fn):
        self.tr, self.mod, self.tgt, self.fn = tr, mod, tgt, fn
        self.cls = tgt.qual.split(".")[0] if "." in tgt.qual else None
        self.tmp = 0
        self.pre = []
        self.strict = True
        self.nodes = 0
        self.raises = False
        self.ret_types = []
        self.literals = set()
        self.deps = []
        self.selfname = None
        self.strfmt = None
        self.nonfmt_returns = 0
        self.uses_half = False
        self.loops = []          # (lean name, fixed params [(lean, type)], state [(lean, type)], body IR)

    # ---- entry
    def run(self):
        fn = self.fn
        kind = "function"
        for d in fn.decorator_list:
            if isinstance(d, ast.Name) and d.id in ("staticmethod", "classmethod"):
                kind = d.id
            else:
                raise Refuse(f"decorator `{ast.unparse(d)}`")
        if self.cls and kind == "function":
            kind = "method"
        a = fn.args
        if a.vararg or a.kwarg or a.kwonlyargs or a.posonlyargs:
            raise Refuse("*args / **kwargs / keyword-only parameters")
        args = list(a.args)
        if kind in ("method", "classmethod"):
            if not args:
                raise Refuse("method without self")
            self.selfname = args[0].arg
            args = args[1:]
        self.bind_exprs = dict(self.tgt.binds)
        bound_roots = set()
        argnames = {x.arg for x in a.args}
        for src in self.bind_exprs:
            for n in ast.walk(ast.parse(src, mode="eval")):
                if isinstance(n, ast.Name) and n.id in argnames:
                    bound_roots.add(n.id)
        self.params = []       # (python name, lean name, type)
        env = {}
        defaults = [None] * (len(args) - len(a.defaults)) + list(a.defaults)
        self.defaults = {}
        for arg, dflt in zip(args, defaults):
            if arg.arg in bound_roots and arg.arg != self.selfname:
                # an object parameter that is only used through bound attribute expressions
                continue
            if arg.arg in self.tgt.types:
                t = self.tgt.types[arg.arg]
            elif arg.annotation is not None:
                an = ast.unparse(arg.annotation)
                if an not in ANNOT:
                    raise Refuse(f"parameter `{arg.arg}` of type `{an}`")
                t = ANNOT[an]
            else:
                t = INT
            self.params.append((arg.arg, lname(arg.arg), t))
            env[arg.arg] = t
            if dflt is not None:
                self.defaults[arg.arg] = dflt
        self.bind_params = {}
        for src, (pname, t) in self.bind_exprs.items():
            self.params.append((pname, lname(pname), t))
            self.bind_params[src] = (lname(pname), t)
        self.opaque = {arg.arg for arg in args if arg.arg in bound_roots}
        if self.selfname:
            self.opaque.add(self.selfname)
        self.assigned = {n.id for n in ast.walk(fn) if isinstance(n, ast.Name) and isinstance(n.ctx, ast.Store)}
        body = list(fn.body)
        ir = self.block(body, env, None)
        ret_t = None
        for t in self.ret_types:
            ret_t = t if ret_t is None else unify(ret_t, t)
        if ret_t is None:
            raise Refuse("function never returns a value")
        if ret_t == NONE:
            raise Refuse("function only returns None")
        lt = lean_type(ret_t)
        text = self.render(ir, ret_t, 1)
        full_t = f"Option {lt}" if self.raises else lt
        plist = " ".join(f"({ln} : {lean_type(t)})" for _, ln, t in self.params)
        stripped = ast.FunctionDef(name=fn.name, args=fn.args, body=strip_doc(fn.body), decorator_list=fn.decorator_list,
                                   returns=fn.returns, type_comment=None, lineno=fn.lineno, col_offset=0)
        try:
            stripped.type_params = []
        except Exception:
            pass
        norm = ast.unparse(ast.fix_missing_locations(stripped))
        return {
            "lean_ns": self.mod.namespace, "lean_def": self.tgt.qual, "lean_name": f"{self.mod.namespace}.{self.tgt.qual}",
            "params": [(pn, t) for pn, _, t in self.params], "ret": ret_t, "raises": self.raises,
            "def_text": self.render_loops(ret_t) + f"def {self.tgt.qual} {plist} : {full_t} :=\n{text}\n",
            "norm_src": norm, "src_hash": hashlib.sha1(norm.encode()).hexdigest()[:12],
            "literals": sorted(self.literals), "deps": list(self.deps), "kind": kind, "strfmt": self.strfmt,
            "has_loop": bool(self.loops), "uses_half": self.uses_half,
        }

    # ---- "small strings": a returned format string of ints is translated as the tuple of its int arguments
    def format_return(self, node):
        """`"{z:d}{a:03d}".format(z=z, a=a)` / f"{a}{z:>03d}{s}" -> (positional template, [arg nodes]) or None.
        The Lean definition returns the integer arguments; the harness applies the (data-only) template in
        Python to compare with the string the real function returns."""
        import string
        if isinstance(node, ast.JoinedStr):
            tpl, args = "", []
            for v in node.values:
                if isinstance(v, ast.Constant) and isinstance(v.value, str):
                    tpl += v.value.replace("{", "{{").replace("}", "}}")
                elif isinstance(v, ast.FormattedValue):
                    if v.conversion != -1:
                        raise Refuse("f-string conversion (!r / !s)")
                    spec = ""
                    if v.format_spec is not None:
                        if not all(isinstance(x, ast.Constant) for x in v.format_spec.values):
                            raise Refuse("f-string with a computed format spec")
                        spec = ":" + "".join(x.value for x in v.format_spec.values)
                    tpl += "{" + str(len(args)) + spec + "}"
                    args.append(v.value)
                else:
                    raise Refuse("f-string part")
            return (tpl, args) if args else None
        if isinstance(node, ast.Call) and isinstance(node.func, ast.Attribute) and node.func.attr == "format" \
                and isinstance(node.func.value, ast.Constant) and isinstance(node.func.value.value, str):
            if any(isinstance(a, ast.Starred) for a in node.args) or any(k.arg is None for k in node.keywords):
                raise Refuse("format with * / ** arguments")
            kw = {k.arg: k.value for k in node.keywords}
            tpl, args, auto = "", [], 0
            for lit, field, spec, conv in string.Formatter().parse(node.func.value.value):
                tpl += lit.replace("{", "{{").replace("}", "}}")
                if field is None:
                    continue
                if conv is not None or "{" in (spec or ""):
                    raise Refuse("format conversion / nested format spec")
                if field == "":
                    src = node.args[auto] if auto < len(node.args) else None
                    auto += 1
                elif field.isdigit():
                    src = node.args[int(field)] if int(field) < len(node.args) else None
                else:
                    src = kw.get(field)
                if src is None:
                    raise Refuse(f"format field `{field}`")
                tpl += "{" + str(len(args)) + (":" + spec if spec else "") + "}"
                args.append(src)
            return (tpl, args) if args else None
        return None

    # ---- helpers
    def fresh(self, hint="v"):
        self.tmp += 1
        return f"tmp_{hint}{self.tmp}"

    def node(self, x):
        self.nodes += 1
        if self.nodes > MAX_NODES:
            raise Refuse("translation too large (statements after `if` are duplicated into both branches)")
        return x

    def wrap_pre(self, pre, ir):
        for p in reversed(pre):
            if p[0] == "guard":
                self.raises = True
                ir = self.node(("if", p[1], ("raise",), ir))
            else:
                self.raises = True
                ir = self.node(("bindopt", p[1], p[2], ir))
        return ir

    def with_pre(self, f):
        """run f() collecting hoisted guards/binds; returns (result, pre list)"""
        saved, self.pre = self.pre, []
        saved_strict, self.strict = self.strict, True
        try:
            r = f()
            return r, self.pre
        finally:
            self.pre, self.strict = saved, saved_strict

    # ---- statements
    def block(self, stmts, env, k):
        """IR of `stmts` followed by continuation k (a function env -> IR) or an implicit `return None`."""
        if not stmts:
            if k is None:
                self.ret_types.append(NONE)
                return self.node(("ret", E("none", NONE)))
            return k(env)
        st, rest = stmts[0], stmts[1:]
        cont = lambda env2: self.block(rest, env2, k)
        if isinstance(st, ast.Expr):
            if isinstance(st.value, ast.Constant) and isinstance(st.value.value, str):
                return cont(env)
            v = st.value
            if isinstance(v, ast.Call) and isinstance(v.func, ast.Attribute) and v.func.attr == "rotate" \
                    and isinstance(v.func.value, ast.Name) and env.get(v.func.value.id, ("",))[0] == "inline" \
                    and getattr(env[v.func.value.id][1], "is_deque", False) and len(v.args) == 1 and not v.keywords:
                dq = env[v.func.value.id][1]
                n = len(dq.elts)
                r, pre = self.with_pre(lambda: self.expr(v.args[0], env))
                if r.t != INT:
                    raise Refuse("deque.rotate by a non-int")
                sh = self.fresh("s")
                lets = [(sh, f"(Int.fmod (-{r.s}) ({n} : Int))")]
                names = []
                for m in range(n):     # deque.rotate(r): new[m] = old[(m - r) mod n] = old[(m + shift) mod n], shift = (-r) mod n
                    sel = dq.elts[(m + n - 1) % n].s
                    for k in range(n - 2, -1, -1):
                        sel = f"(if {sh} = ({k} : Int) then {dq.elts[(m + k) % n].s} else {sel})"
                    tn = self.fresh("d")
                    lets.append((tn, sel))
                    names.append(E(tn, INT))
                ndq = E("(" + ", ".join(x.s for x in names) + ")", dq.t, elts=names)
                ndq.is_deque = True
                env2 = dict(env)
                env2[v.func.value.id] = ("inline", ndq)
                ir = cont(env2)
                for tn, sx in reversed(lets):
                    ir = self.node(("let", tn, sx, INT, ir))
                return self.wrap_pre(pre, ir)
            raise Refuse(f"expression statement `{ast.unparse(st)[:60]}` (possible side effect)")
        if isinstance(st, ast.Pass):
            return cont(env)
        if isinstance(st, ast.Return):
            if st.value is None:
                self.ret_types.append(NONE)
                return self.node(("ret", E("none", NONE)))
            fm = self.format_return(st.value)
            if fm is not None:
                try:
                    saved_state = (list(self.pre), self.nodes)
                    if not all(self.expr(a_, env).t == INT for a_ in fm[1]):
                        fm = None
                except Refuse:
                    fm = None
                self.pre = saved_state[0]
            if fm is not None:
                template, argnodes = fm
                if self.strfmt not in (None, template):
                    raise Refuse("returns strings of different formats")
                self.strfmt = template
                value = argnodes[0] if len(argnodes) == 1 else ast.Tuple(elts=argnodes, ctx=ast.Load())
            else:
                if self.strfmt is not None:
                    raise Refuse("returns both formatted strings and other values")
                value = st.value
            e, pre = self.with_pre(lambda: self.expr(value, env))
            if fm is not None and not (e.t == INT or (e.t[0] == "tuple" and all(x == INT for x in e.t[1]))):
                raise Refuse("formatted string of non-int values")
            self.ret_types.append(e.t)
            self.nonfmt_returns += 0 if fm is not None else 1
            return self.wrap_pre(pre, self.node(("ret", e)))
        if isinstance(st, ast.Raise):
            self.raises = True
            return self.node(("raise",))
        if isinstance(st, ast.Assert):
            c, pre = self.with_pre(lambda: self.cond(st.test, env))
            self.raises = True
            return self.wrap_pre(pre, self.node(("if", c.s, cont(env), ("raise",))))
        if isinstance(st, ast.If):
            mk_then = lambda: self.block(list(st.body), dict(env), cont)
            mk_else = lambda: self.block(list(st.orelse), dict(env), cont)
            try:
                c, pre = self.with_pre(lambda: self.cond(st.test, env))
            except Refuse as e:
                if "conditionally evaluated" not in str(e):
                    raise
                # a raising operand under and/or: compile the short-circuit evaluation into nested ifs
                return self.cond_tree(st.test, env, mk_then, mk_else)
            return self.wrap_pre(pre, self.node(("if", c.s, mk_then(), mk_else())))
        if isinstance(st, ast.AnnAssign):
            if st.value is None or not isinstance(st.target, ast.Name):
                raise Refuse("annotated assignment without value / to a non-name")
            return self.assign([st.target], st.value, env, cont)
        if isinstance(st, ast.Assign):
            if len(st.targets) != 1:
                raise Refuse("chained assignment")
            return self.assign(st.targets, st.value, env, cont)
        if isinstance(st, ast.AugAssign):
            if not isinstance(st.target, ast.Name):
                raise Refuse("augmented assignment to a non-name")
            load = ast.Name(id=st.target.id, ctx=ast.Load())
            return self.assign([st.target], ast.BinOp(left=load, op=st.op, right=st.value), env, cont)
        if isinstance(st, ast.For):
            return self.for_range(st, env, cont)
        if isinstance(st, ast.Try):
            # `try: BODY except X: <expression statements>; raise` = BODY: every exception is the one value `none`,
            # the handler only adds side effects (logging) and re-raises
            if st.orelse or st.finalbody or not st.handlers:
                raise Refuse("`try` with else / finally")
            for h in st.handlers:
                if not h.body or not (isinstance(h.body[-1], ast.Raise) and h.body[-1].exc is None) \
                        or not all(isinstance(x, ast.Expr) for x in h.body[:-1]):
                    raise Refuse("`except` handler that does not end in a bare `raise` after expression statements only")
            self.raises = True
            return self.block(list(st.body) + rest, env, k)
        raise Refuse(f"`{type(st).__name__.lower()}` statement")

    def cond_tree(self, test, env, mk_then, mk_else):
        """`if a or (b and c): T else: E` with Python's short-circuit order, each leaf condition evaluated (with its
        guards / raising calls) exactly where Python evaluates it; T / E are duplicated"""
        if isinstance(test, ast.BoolOp):
            vals = list(test.values)
            first, rest = vals[0], vals[1:]
            rest_node = rest[0] if len(rest) == 1 else ast.BoolOp(op=test.op, values=rest)
            if isinstance(test.op, ast.Or):
                return self.cond_tree(first, env, mk_then, lambda: self.cond_tree(rest_node, env, mk_then, mk_else))
            return self.cond_tree(first, env, lambda: self.cond_tree(rest_node, env, mk_then, mk_else), mk_else)
        if isinstance(test, ast.UnaryOp) and isinstance(test.op, ast.Not):
            return self.cond_tree(test.operand, env, mk_else, mk_then)
        c, pre = self.with_pre(lambda: self.cond(test, env))
        return self.wrap_pre(pre, self.node(("if", c.s, mk_then(), mk_else())))

    def for_range(self, st, env, cont):
        """`for v in range(a[, b]): body` -> an auxiliary definition by structural recursion on the number of
        iterations left (exactly the length of the range, computed before the loop: no fuel bound to prove).
        Early `return` inside the body = `Sum.inl value`; normal completion = `Sum.inr (final values of the
        locals the body assigns)`."""
        if st.orelse or not isinstance(st.target, ast.Name):
            raise Refuse("`for` with else / a non-name target")
        it = st.iter
        if not (isinstance(it, ast.Call) and isinstance(it.func, ast.Name) and it.func.id == "range"
                and "range" not in env and 1 <= len(it.args) <= 2 and not it.keywords):
            raise Refuse("`for` over something other than range(a) / range(a, b)")
        for n in ast.walk(st):
            if isinstance(n, (ast.Break, ast.Continue)):
                raise Refuse("`break` / `continue`")
        var = st.target.id
        body_assigned = {n.id for b in st.body for n in ast.walk(b) if isinstance(n, ast.Name) and isinstance(n.ctx, ast.Store)}
        if var in body_assigned:
            raise Refuse("loop variable assigned inside the loop")
        (lo, hi), pre = self.with_pre(lambda: ((E(int_lit(0), INT, lit=0), self.expr(it.args[0], env)) if len(it.args) == 1
                                               else (self.expr(it.args[0], env), self.expr(it.args[1], env))))
        if lo.t != INT or hi.t != INT:
            raise Refuse("range bounds that are not ints")
        plain = lambda t: t[0] in ("int", "bool", "tuple") or t == LIST(INT)
        state = sorted(n for n in body_assigned if n in env and env[n][0] != "inline")
        for n in state:
            if not plain(env[n]):
                raise Refuse(f"loop-carried variable `{n}` of type {show_type(env[n])}")
        used = {n.id for b in st.body for n in ast.walk(b) if isinstance(n, ast.Name) and isinstance(n.ctx, ast.Load)}
        fixed = sorted(n for n in used if n in env and n not in state and n != var and env[n][0] != "inline")
        self.tmp += 1
        lname_loop = f"{self.tgt.qual}.loop{self.tmp}"
        full = f"ArmiVerif.Gen.Src.{self.mod.namespace}.{lname_loop}"
        fuel = f"tmp_fuel{self.tmp}"
        env_body = {k: v for k, v in env.items()}
        env_body[var] = INT
        fixed_args = " ".join(lname(n) for n in fixed)

        def nxt(env2):
            for n in state:
                if env2.get(n) != env[n]:
                    raise Refuse(f"loop-carried variable `{n}` changes type")
            return self.node(("next", f"{full} {fixed_args} {fuel} ({lname(var)} + (1 : Int)) " + " ".join(lname(n) for n in state)))
        saved_raises = self.raises
        body_ir = self.block(list(st.body), env_body, nxt)
        self.raises = True     # the loop result is an Option (a raise inside the body is `none`)
        self.loops.append((lname_loop, [(lname(n), env[n]) for n in fixed], lname(var), fuel, [(lname(n), env[n]) for n in state], body_ir))
        env_after = {k: v for k, v in env.items() if k != var}
        count = f"(Int.toNat ({hi.s} - {lo.s}))"
        call = f"{full} {fixed_args} {count} {lo.s} " + " ".join(lname(n) for n in state)
        after = cont(env_after)
        return self.wrap_pre(pre, self.node(("loopcall", call, [(lname(n), env[n]) for n in state], after)))

    def assign(self, targets, value, env, cont):
        tgt = targets[0]
        if isinstance(tgt, ast.Name):
            e, pre = self.with_pre(lambda: self.expr(value, env))
            if e.t[0] == "opt":
                raise Refuse("optional value assigned to a local")
            env2 = dict(env)
            if getattr(e, "is_deque", False):
                # bind the components once, carry the deque as the tuple of those names
                names = []
                lets = []
                for c in e.elts:
                    tn = self.fresh("d")
                    lets.append((tn, c.s))
                    names.append(E(tn, INT))
                dq = E("(" + ", ".join(x.s for x in names) + ")", e.t, elts=names)
                dq.is_deque = True
                env2[tgt.id] = ("inline", dq)
                ir = cont(env2)
                for tn, sx in reversed(lets):
                    ir = self.node(("let", tn, sx, INT, ir))
                return self.wrap_pre(pre, ir)
            if e.t == NONE or (e.t[0] == "list" and e.t[1] is None):
                # `x = None` / `x = []`: closed values, carried in the environment (typed per path)
                env2[tgt.id] = ("inline", e)
                return self.wrap_pre(pre, cont(env2))
            env2[tgt.id] = e.t
            env2.pop("$dec:" + tgt.id, None)
            if e.t == STR and e.dec:
                env2["$dec:" + tgt.id] = ("inline", None)
            return self.wrap_pre(pre, self.node(("let", lname(tgt.id), as_val(e), e.t, cont(env2))))
        if isinstance(tgt, (ast.Tuple, ast.List)):
            names = []
            for el in tgt.elts:
                if not isinstance(el, ast.Name):
                    raise Refuse("nested / starred / attribute unpacking target")
                names.append(el.id)
            e, pre = self.with_pre(lambda: self.expr(value, env))
            if e.t[0] != "tuple" or len(e.t[1]) != len(names):
                raise Refuse(f"unpacking a {show_type(e.t)} into {len(names)} names")
            lets = []
            if e.elts is None:
                tmpn = self.fresh("t")
                lets.append((tmpn, e.s, e.t))
                e = E(tmpn, e.t)
            comps = [proj(e, k) for k in range(len(names))]
            temps = []
            for c in comps:   # simultaneous assignment: evaluate all components before binding any name
                tn = self.fresh("u")
                lets.append((tn, as_val(c), c.t))
                temps.append((tn, c.t))
            env2 = dict(env)
            for n, (tn, t) in zip(names, temps):
                lets.append((lname(n), tn, t))
                env2[n] = t
            ir = cont(env2)
            for ln, s, t in reversed(lets):
                ir = self.node(("let", ln, s, t, ir))
            return self.wrap_pre(pre, ir)
        raise Refuse(f"assignment to `{ast.unparse(tgt)}`")

    # ---- expressions
    def cond(self, node, env):
        e = self.expr(node, env, cond=True)
        return self.truthy(e)

    def truthy(self, e):
        if e.t == BOOL:
            return e
        if e.t == INT:
            return E(f"({e.s} ≠ (0 : Int))", BOOL)
        raise Refuse(f"truth value of a {show_type(e.t)}")

    def bound(self, node):
        if self.bind_params and isinstance(node, (ast.Attribute, ast.Call, ast.Subscript, ast.BoolOp, ast.Compare)):
            src = ast.unparse(node)
            if src in self.bind_params:
                ln, t = self.bind_params[src]
                return E(f"({ln} = true)", BOOL) if t == BOOL else E(ln, t)
        return None

    def expr(self, node, env, cond=False):
        self.node(None)
        b = self.bound(node)
        if b is not None:
            return b
        if isinstance(node, ast.Constant):
            v = node.value
            if v is True:
                return E("True", BOOL)
            if v is False:
                return E("False", BOOL)
            if v is None:
                return E("none", NONE)
            if type(v) is int:
                self.literals.add(v)
                return E(int_lit(v), INT, lit=v)
            if type(v) is str:
                return self.str_lit(v)
            if type(v) is float and v == v and abs(v) < 2 ** 40 and float(int(2 * v)) == 2 * v:
                self.uses_half = True
                return E(int_lit(int(2 * v)), HALF)
            raise Refuse(f"{type(v).__name__} literal `{v!r}`"[:80])
        if isinstance(node, ast.Name):
            n = node.id
            if n in env:
                t = env[n]
                if t[0] == "inline":
                    return t[1]
                if t == STR:
                    return E(lname(n), STR, dec=("$dec:" + n) in env)
                return E(f"({lname(n)} = true)", BOOL) if t == BOOL else E(lname(n), t)
            if n in self.assigned or n in self.opaque:
                raise Refuse(f"name `{n}` (possibly unbound local, or an object used other than through a bound attribute)")
            if n in self.mod.consts:
                self.literals.add(self.mod.consts[n])
                return E(int_lit(self.mod.consts[n]), INT, lit=self.mod.consts[n])
            if n in self.mod.imported_names:
                rel, orig = self.mod.imported_names[n]
                m2 = self.tr.module(rel)
                if orig in m2.consts:
                    self.literals.add(m2.consts[orig])
                    return E(int_lit(m2.consts[orig]), INT, lit=m2.consts[orig])
            raise Refuse(f"name `{n}` (not a local, parameter or integer module constant)")
        if isinstance(node, ast.UnaryOp):
            if isinstance(node.op, ast.Not):
                e = self.truthy(self.expr(node.operand, env, cond=True))
                return E(f"(¬{e.s})", BOOL)
            e = self.expr(node.operand, env)
            if e.t == HALF and isinstance(node.op, (ast.USub, ast.UAdd)):
                return E(f"(-{e.s})", HALF) if isinstance(node.op, ast.USub) else e
            if e.t != INT:
                raise Refuse(f"unary operator on a {show_type(e.t)}")
            if isinstance(node.op, ast.USub):
                if e.lit is not None:
                    self.literals.add(-e.lit)
                    return E(int_lit(-e.lit), INT, lit=-e.lit)
                return E(f"(-{e.s})", INT)
            if isinstance(node.op, ast.UAdd):
                return e
            raise Refuse(f"operator `{type(node.op).__name__}`")
        if isinstance(node, ast.BinOp):
            return self.binop(node, env)
        if isinstance(node, ast.BoolOp) and isinstance(node.op, ast.Or) and len(node.values) == 2 and not cond:
            a0 = self.expr(node.values[0], env)
            if a0.t == STR:
                saved, self.strict = self.strict, False
                b0 = self.as_str(self.expr(node.values[1], env))
                self.strict = saved
                return E(f"(if {a0.s} ≠ [] then {a0.s} else {b0.s})", STR, dec=a0.dec and b0.dec)
        if isinstance(node, ast.BoolOp):
            sym = "∧" if isinstance(node.op, ast.And) else "∨"
            parts = []
            saved = self.strict
            for k, v in enumerate(node.values):
                if k > 0:
                    self.strict = False
                e = self.expr(v, env, cond=cond)
                if e.t != BOOL:
                    if not cond:
                        raise Refuse("`and`/`or` on non-bool operands used as a value")
                    e = self.truthy(e)
                parts.append(e.s)
            self.strict = saved
            return E("(" + f" {sym} ".join(parts) + ")", BOOL)
        if isinstance(node, ast.Compare):
            return self.compare(node, env)
        if isinstance(node, ast.IfExp):
            c = self.cond(node.test, env)
            saved, self.strict = self.strict, False
            a = self.expr(node.body, env, cond=cond)
            b2 = self.expr(node.orelse, env, cond=cond)
            self.strict = saved
            if a.t != b2.t and a.t in (STR, CHAR) and b2.t in (STR, CHAR):
                a, b2 = self.as_str(a), self.as_str(b2)
            if {a.t, b2.t} == {INT, HALF}:      # `0 if c else 0.5`: Python's int branch behaves as the equal float
                a = a if a.t == HALF else E(f"((2 : Int) * {a.s})", HALF)
                b2 = b2 if b2.t == HALF else E(f"((2 : Int) * {b2.s})", HALF)
            if a.t != b2.t:
                if cond:
                    a, b2 = self.truthy(a), self.truthy(b2)
                else:
                    raise Refuse("conditional expression with branches of different types")
            if a.t == BOOL:
                return E(f"(if {c.s} then {a.s} else {b2.s})", BOOL)
            if a.t == NONE:
                raise Refuse("conditional expression of None")
            return E(f"(if {c.s} then {as_val(a)} else {as_val(b2)})", a.t, dec=(a.t == STR and a.dec and b2.dec))
        if isinstance(node, ast.Tuple):
            elts = [self.expr(x, env) for x in node.elts]
            if not elts or any(isinstance(x, ast.Starred) for x in node.elts):
                raise Refuse("empty / starred tuple")
            if any(x.t == NONE or x.t[0] in ("list", "opt") for x in elts):
                raise Refuse("tuple with a None / list component")
            return E("(" + ", ".join(as_val(x) for x in elts) + ")", TUP(*[x.t for x in elts]), elts=elts)
        if isinstance(node, ast.List):
            elts = [self.expr(x, env) for x in node.elts]
            t = None
            for x in elts:
                if x.t == NONE or x.t[0] in ("list", "opt"):
                    raise Refuse("list of None / lists")
                t = x.t if t is None else unify(t, x.t)
            s = "[" + ", ".join(as_val(x) for x in elts) + "]" if elts else "[]"
            return E(s, LIST(t), elts=elts)
        if isinstance(node, ast.ListComp):
            if len(node.generators) != 1 or node.generators[0].ifs or node.generators[0].is_async \
                    or not isinstance(node.generators[0].target, ast.Name):
                raise Refuse("comprehension other than `[e for x in xs]`")
            g = node.generators[0]
            xs = self.expr(g.iter, env)
            if xs.t != LIST(INT):
                raise Refuse(f"comprehension over a {show_type(xs.t)}")
            saved, self.strict = self.strict, False
            env2 = dict(env)
            env2[g.target.id] = INT
            el = self.expr(node.elt, env2)
            self.strict = saved
            if el.t != INT:
                raise Refuse("comprehension producing non-int elements")
            return E(f"(List.map (fun ({lname(g.target.id)} : Int) => {el.s}) {xs.s})", LIST(INT))
        if isinstance(node, ast.Subscript):
            return self.subscript(node, env)
        if isinstance(node, ast.Call):
            return self.call(node, env)
        if isinstance(node, ast.Attribute):
            raise Refuse(f"attribute access `{ast.unparse(node)}` (not bound to a parameter)")
        raise Refuse(f"`{type(node).__name__}` expression `{ast.unparse(node)[:50]}`")

    # ---- small strings (List Int of code points)
    def str_lit(self, v):
        body = ", ".join(int_lit(ord(c)) for c in v)
        return E(f"([{body}] : List Int)", STR, dec=bool(v) and all(c in "0123456789" for c in v), lit=v)

    def as_str(self, e):
        if e.t == STR:
            return e
        if e.t == CHAR:
            return E(f"[{e.s}]", STR)
        raise Refuse(f"a {show_type(e.t)} where a string is expected")

    def fmt_spec(self, spec, val):
        """one `{:spec}` field applied to an int expression -> decimal string"""
        import re as _re
        if val.t in (STR, CHAR):
            if spec:
                raise Refuse(f"format spec `{spec}` on a string")
            return self.as_str(val)
        mf = _re.fullmatch(r"0>(\d+)", spec or "")
        if mf:
            if val.t != INT:
                raise Refuse("format of a non-int value")
            return E(f"(pyFmtFill ({int(mf.group(1))} : Nat) {val.s})", STR)
        m = _re.fullmatch(r"(0?)(\d*)d?", spec or "")
        if not m or (m.group(2) and not m.group(1)):
            raise Refuse(f"format spec `{spec}` (only `d`, `0Nd`)")
        if val.t not in (INT, CHAR):
            raise Refuse("format of a non-int value")
        w = int(m.group(2)) if m.group(2) else 0
        return E(f"(pyFmtD ({w} : Nat) {val.s})", STR, dec=True)

    def str_format(self, node, env):
        """`"<template>".format(int exprs)` as a string value (zero-padded decimal fields only)"""
        import string
        tpl = node.func.value.value
        kw = {k.arg: k.value for k in node.keywords}
        parts, auto = [], 0
        for lit, field, spec, conv in string.Formatter().parse(tpl):
            if lit:
                parts.append(self.str_lit(lit))
            if field is None:
                continue
            if conv is not None or "{" in (spec or ""):
                raise Refuse("format conversion / nested format spec")
            if field == "":
                src = node.args[auto] if auto < len(node.args) else None
                auto += 1
            elif field.isdigit():
                src = node.args[int(field)] if int(field) < len(node.args) else None
            else:
                src = kw.get(field)
            if src is None:
                raise Refuse(f"format field `{field}`")
            parts.append(self.fmt_spec(spec, self.expr(src, env)))
        return self.str_concat(parts)

    def str_concat(self, parts):
        if not parts:
            return self.str_lit("")
        if len(parts) == 1:
            return parts[0]
        return E("(" + " ++ ".join(p.s for p in parts) + ")", STR, dec=all(p.dec for p in parts))

    def binop(self, node, env):
        op = node.op
        if isinstance(op, ast.Div):
            raise Refuse("true division `/` (float)")
        a = self.expr(node.left, env)
        if isinstance(op, ast.Pow):
            n = const_int(node.right)
            if a.t != INT or n is None or n < 0:
                raise Refuse("`**` without a literal non-negative integer exponent")
            self.literals.add(n)
            return E(f"({a.s} ^ ({n} : Nat))", INT)
        b = self.expr(node.right, env)
        if isinstance(op, ast.Add) and a.t in (STR, CHAR) and b.t in (STR, CHAR):
            return self.str_concat([self.as_str(a), self.as_str(b)])
        if HALF in (a.t, b.t) and a.t in (INT, HALF) and b.t in (INT, HALF):
            dbl = lambda e: e.s if e.t == HALF else f"((2 : Int) * {e.s})"
            if isinstance(op, (ast.Add, ast.Sub)):
                sym = "+" if isinstance(op, ast.Add) else "-"
                return E(f"({dbl(a)} {sym} {dbl(b)})", HALF)
            if isinstance(op, ast.Mult) and INT in (a.t, b.t):
                return E(f"({a.s} * {b.s})", HALF)      # int * (2x) = 2 * (int * x)
            raise Refuse("arithmetic on half-integers other than + - and multiplication by an int")
        if a.t != INT or b.t != INT:
            raise Refuse(f"arithmetic `{type(op).__name__}` on {show_type(a.t)} and {show_type(b.t)}")
        if isinstance(op, (ast.Add, ast.Sub, ast.Mult)):
            sym = {ast.Add: "+", ast.Sub: "-", ast.Mult: "*"}[type(op)]
            return E(f"({a.s} {sym} {b.s})", INT)
        if isinstance(op, (ast.FloorDiv, ast.Mod)):
            fn = "Int.fdiv" if isinstance(op, ast.FloorDiv) else "Int.fmod"
            if b.lit is None or b.lit == 0:
                self.guard_nonzero(b)
            return E(f"({fn} {a.s} {b.s})", INT)
        raise Refuse(f"operator `{type(op).__name__}`")

    def guard_nonzero(self, b):
        if not self.strict:
            raise Refuse("division by a non-literal inside a conditionally evaluated operand")
        self.pre.append(("guard", f"({b.s} = (0 : Int))"))

    def compare(self, node, env):
        parts = []
        left = self.expr(node.left, env)
        saved = self.strict
        for k, (op, rn) in enumerate(zip(node.ops, node.comparators)):
            if k > 0:
                self.strict = False
            if isinstance(op, (ast.In, ast.NotIn)):
                if not isinstance(rn, (ast.Tuple, ast.List)) or not rn.elts:
                    raise Refuse("`in` on something that is not a literal tuple")
                alts = [self.expr(x, env) for x in rn.elts]
                if any(x.t != left.t or x.t not in (INT,) for x in alts):
                    raise Refuse("`in` over non-int values")
                p = "(" + " ∨ ".join(f"{left.s} = {x.s}" for x in alts) + ")"
                parts.append(p if isinstance(op, ast.In) else f"(¬{p})")
                right = E("(0 : Int)", INT)
            else:
                right = self.expr(rn, env)
                sym = {ast.Lt: "<", ast.LtE: "≤", ast.Gt: ">", ast.GtE: "≥", ast.Eq: "=", ast.NotEq: "≠"}.get(type(op))
                if sym is None:
                    raise Refuse(f"comparison `{type(op).__name__}`")
                if left.t in (STR, CHAR) and right.t in (STR, CHAR) and sym in ("=", "≠"):
                    parts.append(f"({self.as_str(left).s} {sym} {self.as_str(right).s})")
                elif HALF in (left.t, right.t) and left.t in (INT, HALF) and right.t in (INT, HALF):
                    dl = left.s if left.t == HALF else f"((2 : Int) * {left.s})"
                    dr = right.s if right.t == HALF else f"((2 : Int) * {right.s})"
                    parts.append(f"({dl} {sym} {dr})")
                elif left.t != right.t:
                    raise Refuse(f"comparison of {show_type(left.t)} with {show_type(right.t)}")
                elif left.t == INT:
                    parts.append(f"({left.s} {sym} {right.s})")
                elif left.t[0] == "tuple" and sym in ("=", "≠") and all(x == INT for x in left.t[1]):
                    parts.append(f"({as_val(left)} {sym} {as_val(right)})")
                elif left.t == BOOL and sym in ("=", "≠"):
                    parts.append(f"({as_val(left)} {sym} {as_val(right)})")
                else:
                    raise Refuse(f"comparison `{sym}` on {show_type(left.t)}")
            left = right
        self.strict = saved
        return E(parts[0] if len(parts) == 1 else "(" + " ∧ ".join(parts) + ")", BOOL)

    def subscript(self, node, env):
        base = self.expr(node.value, env)
        if base.t == CHAR:
            base = self.as_str(base)
        if base.t == LIST(INT) or base.t == STR:
            is_str = base.t == STR
            sl = node.slice
            if isinstance(sl, ast.Slice):
                if sl.step is not None:
                    raise Refuse("slice with a step")
                if sl.lower is None and sl.upper is not None:
                    k = self.expr(sl.upper, env)
                    fn = "pyTake"
                elif sl.upper is None and sl.lower is not None:
                    k = self.expr(sl.lower, env)
                    fn = "pyDrop"
                else:
                    raise Refuse("list slice other than xs[:k] / xs[k:]")
                if k.t != INT:
                    raise Refuse("slice bound that is not an int")
                if is_str:
                    return E(f"({fn} {base.s} {k.s})", STR, dec=base.dec)
                return E(f"({fn} {base.s} {k.s})", LIST(INT))
            k = self.expr(sl, env)
            if k.t != INT:
                raise Refuse("list index that is not an int")
            if not self.strict:
                raise Refuse("list indexing (may raise IndexError) inside a conditionally evaluated operand")
            tn = self.fresh("x")
            self.pre.append(("bind", tn, f"(pyIdx {base.s} {k.s})"))
            if is_str:
                return E(f"[{tn}]", STR, dec=base.dec)
            return E(tn, INT)
        if base.t[0] != "tuple":
            raise Refuse(f"subscript of a {show_type(base.t)}")
        n = len(base.t[1])
        sl = node.slice
        if isinstance(sl, ast.Slice):
            if sl.step is not None:
                raise Refuse("slice with a step")
            lo = 0 if sl.lower is None else const_int(sl.lower)
            hi = n if sl.upper is None else const_int(sl.upper)
            if lo is None or hi is None:
                raise Refuse("slice with non-literal bounds")
            idx = list(range(n))[lo:hi]
            if len(idx) < 2:
                raise Refuse("slice producing fewer than two components")
            comps = [proj(base, k) for k in idx]
            return E("(" + ", ".join(as_val(c) for c in comps) + ")", TUP(*[c.t for c in comps]), elts=comps)
        k = const_int(sl)
        if k is None:
            raise Refuse("tuple index that is not a literal")
        if not -n <= k < n:
            raise Refuse("tuple index out of range")
        return proj(base, k % n)

    def call(self, node, env):
        f = node.func
        if any(isinstance(a, ast.Starred) for a in node.args) or any(k.arg is None for k in node.keywords):
            raise Refuse("call with * / ** arguments")
        # collections.deque of a fixed-length tuple (only .rotate and literal indexing are supported), tuple-like constructors
        if isinstance(f, ast.Name) and f.id == "deque" and "deque" not in env and "deque" not in self.mod.funcs \
                and len(node.args) == 1 and not node.keywords:
            a = self.expr(node.args[0], env)
            if a.t[0] != "tuple" or not all(x == INT for x in a.t[1]) or a.elts is None:
                raise Refuse("deque of something other than a literal tuple of ints")
            e = E(a.s, a.t, elts=a.elts)
            e.is_deque = True
            return e
        if isinstance(f, ast.Name) and f.id in self.tgt.ctors and f.id not in env:
            n = self.tgt.ctors[f.id]
            if len(node.args) < n:
                raise Refuse(f"constructor `{f.id}` with fewer than {n} positional arguments")
            elts = [self.expr(x, env) for x in node.args[:n]]
            if any(x.t != INT for x in elts):
                raise Refuse(f"constructor `{f.id}` of non-int components")
            return E("(" + ", ".join(x.s for x in elts) + ")", TUP(*[INT] * n), elts=elts)
        # strings: "<template>".format(ints) as a value, "".join(<comprehension over a string>)
        if isinstance(f, ast.Attribute) and isinstance(f.value, ast.Constant) and isinstance(f.value.value, str):
            if f.attr == "format":
                if any(isinstance(a, ast.Starred) for a in node.args):
                    raise Refuse("format with * arguments")
                return self.str_format(node, env)
            if f.attr == "join" and f.value.value == "" and len(node.args) == 1 and not node.keywords \
                    and isinstance(node.args[0], (ast.ListComp, ast.GeneratorExp)):
                comp = node.args[0]
                if len(comp.generators) != 1 or comp.generators[0].ifs or not isinstance(comp.generators[0].target, ast.Name):
                    raise Refuse("join over a comprehension other than `e for c in s`")
                g = comp.generators[0]
                xs = self.expr(g.iter, env)
                if xs.t != STR:
                    raise Refuse(f"join over a comprehension iterating a {show_type(xs.t)}")
                saved, self.strict = self.strict, False
                env2 = dict(env)
                env2[g.target.id] = CHAR
                el = self.as_str(self.expr(comp.elt, env2))
                self.strict = saved
                return E(f"(List.flatten (List.map (fun ({lname(g.target.id)} : Int) => {el.s}) {xs.s}))", STR, dec=el.dec)
            raise Refuse(f"string method `{f.attr}`")
        if isinstance(f, ast.Name) and f.id not in env and f.id not in self.mod.funcs and f.id in ("ord", "chr", "str"):
            if node.keywords or len(node.args) != 1:
                raise Refuse(f"`{f.id}` with other than one argument")
            a = self.expr(node.args[0], env)
            if f.id == "ord":
                if a.t == CHAR:
                    return E(a.s, INT)
                if a.t == STR and isinstance(a.lit, str) and len(a.lit) == 1:
                    self.literals.add(ord(a.lit))
                    return E(int_lit(ord(a.lit)), INT, lit=ord(a.lit))
                raise Refuse("`ord` of something that is not a single character")
            if f.id == "str":
                if a.t != INT:
                    raise Refuse("`str` of a non-int")
                return E(f"(pyStr {a.s})", STR, dec=True)
            if a.t != INT:
                raise Refuse("`chr` of a non-int")
            if not self.strict:
                raise Refuse("`chr` (may raise) inside a conditionally evaluated operand")
            tn = self.fresh("c")
            self.pre.append(("bind", tn, f"(pyChr {a.s})"))
            return E(tn, STR)
        # builtins
        if isinstance(f, ast.Name) and f.id not in env and f.id not in self.mod.funcs and f.id in (
                "abs", "min", "max", "int", "bool", "divmod", "len", "sum"):
            if node.keywords:
                raise Refuse(f"keyword arguments to `{f.id}`")
            args = [self.expr(a, env, cond=(f.id == "bool")) for a in node.args]
            if f.id == "abs" and len(args) == 1 and args[0].t == INT:
                return E(f"(pyAbs {args[0].s})", INT)
            if f.id in ("min", "max") and len(args) >= 2 and all(a.t == INT for a in args):
                s = args[0].s
                for a in args[1:]:
                    s = f"({f.id} {s} {a.s})"
                return E(s, INT)
            if f.id == "int" and len(args) == 1 and args[0].t == INT:
                return args[0]
            if f.id == "int" and len(args) == 1 and args[0].t == HALF:
                return E(f"(pyTruncHalf {args[0].s})", INT)
            if f.id == "int" and len(args) == 1 and args[0].t == STR:
                if not args[0].dec:
                    raise Refuse("`int` of a string that is not known to consist of decimal digits / a sign "
                                 "(Python's int() also accepts spaces, underscores and other digit scripts)")
                if not self.strict:
                    raise Refuse("`int(str)` (may raise) inside a conditionally evaluated operand")
                tn = self.fresh("n")
                self.pre.append(("bind", tn, f"(pyIntOfStr {args[0].s})"))
                return E(tn, INT)
            if f.id == "len" and len(args) == 1 and args[0].t == STR:
                return E(f"(Int.ofNat (List.length {args[0].s}))", INT)
            if f.id == "bool" and len(args) == 1 and args[0].t in (INT, BOOL):
                return self.truthy(args[0])
            if f.id == "len" and len(args) == 1 and args[0].t[0] == "tuple":
                return E(int_lit(len(args[0].t[1])), INT)
            if f.id == "len" and len(args) == 1 and args[0].t == LIST(INT):
                return E(f"(Int.ofNat (List.length {args[0].s}))", INT)
            if f.id == "sum" and len(args) == 1 and args[0].t == LIST(INT):
                return E(f"(pySum {args[0].s})", INT)
            if f.id == "divmod" and len(args) == 2 and all(a.t == INT for a in args):
                if args[1].lit is None or args[1].lit == 0:
                    self.guard_nonzero(args[1])
                q = E(f"(Int.fdiv {args[0].s} {args[1].s})", INT)
                r = E(f"(Int.fmod {args[0].s} {args[1].s})", INT)
                return E(f"({q.s}, {r.s})", T2, elts=[q, r])
            raise Refuse(f"`{f.id}` on {', '.join(show_type(a.t) for a in args)}")
        # translated functions
        key = None
        if isinstance(f, ast.Name):
            if f.id in env or f.id in self.assigned:
                raise Refuse(f"call of a local `{f.id}`")
            if f.id in self.mod.funcs:
                key = f"{self.mod.rel}::{f.id}"
            elif f.id in self.mod.imported_names:
                rel, orig = self.mod.imported_names[f.id]
                key = f"{rel}::{orig}"
        elif isinstance(f, ast.Attribute) and isinstance(f.value, ast.Name):
            root = f.value.id
            if root not in env and root not in self.assigned:
                if self.cls and (root == self.selfname or root == self.cls):
                    if f"{self.cls}.{f.attr}" in self.mod.funcs:
                        key = f"{self.mod.rel}::{self.cls}.{f.attr}"
                    else:
                        raise Refuse(f"call of `{ast.unparse(f)}` (not defined in class {self.cls} itself)")
                elif root in self.mod.module_alias:
                    key = f"{self.mod.module_alias[root]}::{f.attr}"
                elif root in self.mod.classes and f"{root}.{f.attr}" in self.mod.funcs:
                    key = f"{self.mod.rel}::{root}.{f.attr}"
        if key is None:
            raise Refuse(f"call of `{ast.unparse(f)}` (not a translatable armi function)")
        res = self.tr.translate(key)
        if res["status"] != "translated":
            raise Refuse(f"calls `{res['qual']}`, which is untranslatable: {res['reason']}")
        if res.get("strfmt"):
            raise Refuse(f"calls `{res['qual']}`, which returns a string")
        if key not in self.deps:
            self.deps.append(key)
        callee_fn = self.tr.module(res["file"]).funcs[res["qual"]]
        pnames = [p for p, _ in res["params"]]
        given = {}
        cargs = callee_fn.args
        sig = [x.arg for x in cargs.args]
        if res["kind"] in ("method", "classmethod"):
            sig = sig[1:]
        pos = [a for a in node.args]
        if len(pos) > len(sig):
            raise Refuse(f"too many arguments for `{res['qual']}`")
        for pn, a in zip(sig, pos):
            given[pn] = a
        for kw in node.keywords:
            if kw.arg not in sig or kw.arg in given:
                raise Refuse(f"keyword argument `{kw.arg}` of `{res['qual']}`")
            given[kw.arg] = kw.value
        for pn in list(given):
            if pn not in pnames:      # an object parameter of the callee (dropped from its Lean signature)
                a_ = given.pop(pn)
                if not (isinstance(a_, ast.Name) and a_.id in self.opaque):
                    raise Refuse(f"object argument `{pn}` of `{res['qual']}` is not an object parameter passed through")
        # defaults of the callee (literal ints / bools only)
        cdef = dict(zip([x.arg for x in cargs.args][len(cargs.args) - len(cargs.defaults):], cargs.defaults))
        rendered = []
        callee_t = self.tr.targets[key]
        callee_bind_params = {pname: src for src, (pname, _t) in callee_t.binds.items()}
        callee_argnames = [x.arg for x in cargs.args]
        for pn, pt in res["params"]:
            if pn in callee_bind_params and pn not in given:
                # the callee reads `src` of an object parameter; accept when the caller passes its own object
                # parameter of the same name straight through and binds the same expression
                src = callee_bind_params[pn]
                roots = [n.id for n in ast.walk(ast.parse(src, mode="eval")) if isinstance(n, ast.Name) and n.id in callee_argnames]
                okpass = src in self.bind_params and self.bind_params[src][1] == pt
                for rt_ in roots:
                    idx = callee_argnames.index(rt_) - (1 if res["kind"] in ("method", "classmethod") else 0)
                    arg = node.args[idx] if 0 <= idx < len(node.args) else next((k.value for k in node.keywords if k.arg == rt_), None)
                    if not (isinstance(arg, ast.Name) and arg.id == rt_ and arg.id in self.opaque):
                        okpass = False
                if not okpass:
                    raise Refuse(f"call of `{res['qual']}` whose bound expression `{src}` is not bound identically here")
                ln, t = self.bind_params[src]
                rendered.append(ln)
                continue
            if pn in given:
                e = self.expr(given[pn], env, cond=(pt == BOOL))
                if pt == BOOL and e.t == INT:
                    raise Refuse(f"int passed for bool parameter `{pn}`")
            elif pn in cdef:
                e = self.expr(cdef[pn], {}, cond=False)
            else:
                raise Refuse(f"argument `{pn}` of `{res['qual']}` missing (bound attribute parameters cannot be supplied by a caller)")
            if e.t != pt:
                raise Refuse(f"argument `{pn}` of `{res['qual']}`: {show_type(e.t)} given, {show_type(pt)} expected")
            rendered.append(as_val(e))
        ns = "" if res["lean_ns"] == self.mod.namespace else res["lean_ns"] + "."
        full = f"ArmiVerif.Gen.Src.{res['lean_ns']}.{res['lean_def']}"
        s = "(" + " ".join([full] + rendered) + ")"
        rt = res["ret"]
        if res["raises"]:
            if not self.strict:
                raise Refuse(f"call of the raising function `{res['qual']}` inside a conditionally evaluated operand")
            tn = self.fresh("r")
            self.pre.append(("bind", tn, s))
            s = tn
        if rt == BOOL:
            return E(f"({s} = true)", BOOL)
        return E(s, rt)

    # ---- rendering
    def state_type(self, state):
        if not state:
            return "Unit"
        return " × ".join(lean_type(t) for _, t in state) if len(state) > 1 else lean_type(state[0][1])

    def state_pat(self, state):
        if not state:
            return "()"
        return "(" + ", ".join(n for n, _ in state) + ")" if len(state) > 1 else state[0][0]

    def render(self, ir, ret_t, ind, loop=None):
        """loop = None in the function body; in a loop body it is the loop's state (a `return` is `Sum.inl`)."""
        pad = "  " * ind
        k = ir[0]
        if k == "ret":
            v = coerce(ir[1], ret_t)
            if loop is not None:
                return pad + f"some (Sum.inl {v})"
            return pad + (f"some {v}" if self.raises else v)
        if k == "raise":
            return pad + "none"
        if k == "next":
            return pad + ir[1]
        if k == "let":
            _, ln, s, t, body = ir
            return f"{pad}let {ln} : {lean_type(t)} := {s}\n" + self.render(body, ret_t, ind, loop)
        if k == "if":
            _, c, th, el = ir
            return (f"{pad}if {c} then\n" + self.render(th, ret_t, ind + 1, loop) + f"\n{pad}else\n" + self.render(el, ret_t, ind + 1, loop))
        if k == "bindopt":
            _, tn, s, body = ir
            return (f"{pad}match {s} with\n{pad}| none => none\n{pad}| some {tn} =>\n" + self.render(body, ret_t, ind + 1, loop))
        if k == "loopcall":
            _, call, state, after = ir
            early = "some (Sum.inl tmp_early)" if loop is not None else "some tmp_early"
            return (f"{pad}match {call} with\n{pad}| none => none\n{pad}| some (Sum.inl tmp_early) => {early}\n"
                    f"{pad}| some (Sum.inr {self.state_pat(state)}) =>\n" + self.render(after, ret_t, ind + 1, loop))
        raise AssertionError(k)

    def render_loops(self, ret_t):
        out = []
        for (name, fixed, var, fuel, state, body) in self.loops:
            plist = " ".join(f"({ln} : {lean_type(t)})" for ln, t in fixed)
            sig = " → ".join(["Nat", "Int"] + [lean_type(t) for _, t in state])
            rt = f"Option ({lean_type(ret_t)} ⊕ {self.state_type(state)})"
            pats0 = ", ".join(["0", "_"] + [n for n, _ in state])
            pats1 = ", ".join([f"{fuel} + 1", var] + [n for n, _ in state])
            fin = self.state_pat(state) if state else "()"
            text = (f"def {name} {plist} : {sig} → {rt}\n  | {pats0} => some (Sum.inr {fin})\n  | {pats1} =>\n"
                    + self.render(body, ret_t, 2, loop=state) + "\n")
            out.append(text)
        return "".join(out)


def strip_doc(body):
    if body and isinstance(body[0], ast.Expr) and isinstance(body[0].value, ast.Constant) and isinstance(body[0].value.value, str):
        rest = body[1:]
        return rest or [ast.Pass()]
    return body


# ------------------------------------------------------------------------------------------ output
def flat_slots(t):
    if t in (INT, BOOL):
        return 1
    if t == LIST(INT) or t == STR:
        return 1
    if t[0] == "tuple" and all(x in (INT, BOOL) for x in t[1]):
        return len(t[1])
    raise Refuse(f"parameter of type {show_type(t)} cannot be driven")


def render_module(results, repo_label="$ARMI_REPO"):
    """The text of Gen/Src.lean for the translated functions (deterministic)."""
    L = ["/-", "GENERATED by tools/py2lean.py from the current source text of " + repo_label + " - do not edit.",
         "One namespace per Python module; each definition carries the file:line and the normalised source it",
         "was translated from.  Python `//`, `%` are floor division / modulo (`Int.fdiv`, `Int.fmod`); a raise is `none`.",
         "-/", "import ArmiVerif.Model.PyInt", "", "namespace ArmiVerif.Gen.Src", "open ArmiVerif.PyInt", ""]
    ok = [r for r in results if r["status"] == "translated"]
    # dependency order: a callee before its callers
    emitted, order = set(), []
    bykey = {r["key"]: r for r in ok}

    def emit(r):
        if r["key"] in emitted:
            return
        emitted.add(r["key"])
        for d in r["deps"]:
            if d in bykey:
                emit(bykey[d])
        order.append(r)
    for r in ok:
        emit(r)
    for r in order:
        src = r["norm_src"].replace("-/", "- /").replace("/-", "/ -")
        L.append(f"namespace {r['lean_ns']}")
        L.append(f"/-- `{r['qual']}`  ({r['file']}:{r['line']})")
        L.append("```python")
        L += src.split("\n")
        L.append("```")
        L.append("-/")
        L.append(r["def_text"].rstrip("\n"))
        L.append(f"end {r['lean_ns']}")
        L.append("")
    L.append("/-- names of the translated functions, in emission order -/")
    L.append("def translated : List String := [" + ", ".join(f'"{r["lean_name"]}"' for r in order) + "]")
    L.append("")
    L.append("/-- driver entry: function name + one token per scalar argument (`[n]`; bools as 0/1; tuples flattened) or per list argument ↦ canonical result line -/")
    L.append("def dispatch (name : String) (a : List (List Int)) : Option String :=")
    L.append("  match name, a with")
    for r in order:
        try:
            n, args, pats = 0, [], []
            for _, t in r["params"]:
                if t == LIST(INT) or t == STR:
                    pats.append(f"l{n}")
                    args.append(f"l{n}")
                    n += 1
                    continue
                k = flat_slots(t)
                xs = []
                for j in range(k):
                    tt = t if k == 1 and t[0] != "tuple" else t[1][j]
                    xs.append(f"(x{n} != 0)" if tt == BOOL else f"x{n}")
                    pats.append(f"[x{n}]")
                    n += 1
                args.append(xs[0] if t[0] != "tuple" else "(" + ", ".join(xs) + ")")
            pat = "[" + ", ".join(pats) + "]"
            call = " ".join([r["lean_name"]] + args)
            show = f"showRaise ({call})" if r["raises"] else f"PyShow.sh ({call})"
            L.append(f'  | "{r["lean_name"]}", {pat} => some ({show})')
        except Refuse:
            continue
    L.append("  | _, _ => none")
    L.append("")
    L.append("end ArmiVerif.Gen.Src")
    return "\n".join(L) + "\n"


def translate_repo(repo=None, targets=None):
    repo = repo or os.environ.get("ARMI_REPO", "/repo")
    tr = Translator(repo, targets)
    done = tr.translate_all()
    results = [done[k] for k in tr.order]
    return results


def write_if_changed(path, text):
    old = None
    if os.path.exists(path):
        with open(path) as f:
            old = f.read()
    if old == text:
        return False
    os.makedirs(os.path.dirname(path), exist_ok=True)
    tmp = path + f".tmp{os.getpid()}"
    with open(tmp, "w") as f:
        f.write(text)
    os.replace(tmp, path)
    return True


def main(argv):
    repo = os.environ.get("ARMI_REPO", "/repo")
    out = GEN_PATH
    write = True
    for a in argv:
        if a == "--dry":
            write = False
        elif a.startswith("--out="):
            out = a[6:]
    results = translate_repo(repo)
    for r in results:
        if r["status"] == "translated":
            print(f"translated: {r['qual']} -> ArmiVerif.Gen.Src.{r['lean_name']}  ({r['file']}:{r['line']})")
        else:
            print(f"untranslatable: {r['qual']}: {r['reason']}")
    text = render_module(results)
    if write:
        changed = write_if_changed(out, text)
        print(("rewrote " if changed else "unchanged ") + out)
    else:
        sys.stdout.write(text)
    return 0


if __name__ == "__main__":
    sys.exit(main(sys.argv[1:]))
