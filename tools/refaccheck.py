#!/usr/bin/env python3
"""Run a check against a behaviour-PRESERVING rewrite produced by an independent sub-agent.

usage: tools/refaccheck.py <prop> <dir-with-patch.diff+meta.json> [--keep-as <name>] [--tier quick] [--skip-suite]

In a private scratch worktree of /repo under /tmp (removed afterwards): apply patch.diff, run the
pinned suite (missing_from_stable must be 0), then ARMI_REPO=<patched tree> ./check <prop> <tier>.
The expected result is exit 0 (no VIOLATION line): anything else is either a false alarm of the
check (to be repaired in the machinery) or a rewrite that is not behaviour-preserving after all
(to be shown with the replay against the real code, and then dropped from the set).
With --keep-as the rewrite is stored as /verif/refactors/<name>/ with the result.
"""
import json
import os
import shutil
import subprocess
import sys
import time

VERIF = os.path.dirname(os.path.dirname(os.path.abspath(__file__)))


def sh(cmd, cwd=None, env=None, timeout=3600):
    p = subprocess.run(cmd, shell=True, cwd=cwd, env=env, capture_output=True, text=True, timeout=timeout)
    return p.returncode, p.stdout + p.stderr


def main():
    prop, src = sys.argv[1], os.path.abspath(sys.argv[2])
    keep = sys.argv[sys.argv.index("--keep-as") + 1] if "--keep-as" in sys.argv else None
    tier = sys.argv[sys.argv.index("--tier") + 1] if "--tier" in sys.argv else "quick"
    wt = f"/tmp/refacrun-{prop}-{os.getpid()}"
    res = {"property": prop, "source": src}
    rc, out = sh(f"git -C /repo worktree add --detach {wt} HEAD -q")
    if rc:
        print(out)
        return 2
    try:
        rc, out = sh(f"git apply {src}/patch.diff", cwd=wt)
        res["patch_applies"] = rc == 0
        if rc:
            res["apply_err"] = out[-500:]
            print(json.dumps(res, indent=1))
            return 1
        if "--skip-suite" not in sys.argv:
            junit = f"{wt}/junit-refac.xml"
            sh(f"/venv/bin/python -m pytest -q -p no:cacheprovider --timeout=900 --continue-on-collection-errors --junitxml={junit}", cwd=wt)
            rc, out = sh(f"python3 {VERIF}/tools/baseline_compare.py {junit}")
            res["suite"] = out.strip().split("\n")[0]
            res["suite_ok"] = rc == 0
            os.remove(junit)
        sh("git status --short | grep -v '^ M' | awk '{print $2}' | xargs -r rm -rf", cwd=wt)
        env = dict(os.environ, ARMI_REPO=wt, VERIF_NO_LEANCHECKER="1")
        t0 = time.time()
        rc, out = sh(f"./check {prop} {tier}", cwd=VERIF, env=env, timeout=7200)
        res["check_exit"] = rc
        res["check_wall_s"] = round(time.time() - t0, 1)
        res["check_lines"] = [l for l in out.split("\n") if l.startswith(("VIOLATION", "INFRA", prop))][:12]
        if rc != 0:
            res["check_tail"] = out[-1500:]
            for l in res["check_lines"]:
                if l.startswith("VIOLATION") and "replay=" in l:
                    rp = l.split("replay=")[1].split()[0]
                    try:
                        d = json.load(open(os.path.join(VERIF, rp)))
                        res["first_replay"] = {k: d.get(k) for k in ("kind", "key", "clause", "case", "observed", "expected")}
                        shutil.copy(os.path.join(VERIF, rp), f"/tmp/refac-replay-{os.path.basename(src)}.json")
                    except Exception:
                        pass
                    break
        res["quiet"] = rc == 0
        if keep:
            dst = os.path.join(VERIF, "refactors", keep)
            os.makedirs(dst, exist_ok=True)
            shutil.copy(f"{src}/patch.diff", dst)
            meta = {}
            try:
                meta = json.load(open(f"{src}/meta.json"))
            except Exception:
                pass
            meta.update({"property": prop, "suite": res.get("suite"),
                         "check_result": {"exit": rc, "tier": tier, "lines": res["check_lines"], "first_replay": res.get("first_replay")}})
            json.dump(meta, open(os.path.join(dst, "meta.json"), "w"), indent=1)
    finally:
        sh(f"git -C /repo worktree remove --force {wt}")
        shutil.rmtree(wt, ignore_errors=True)
    print(json.dumps(res, indent=1, default=str))
    return 0


if __name__ == "__main__":
    sys.exit(main())
