#!/venv/bin/python
"""Regression of the C06 / C15 checks against every saved seeded change.

For each /verif/seeded/_incoming*/{C06,C15}-*/patch.diff (and any extra patch files given on the command line as
PROP:path): copy /repo/armi to a private directory, apply the patch there, run `./check PROP quick` with ARMI_REPO
pointing at the copy, and require exit 1 with a VIOLATION line. The replays such a run writes are removed again.
Finally the unchanged tree must give exit 0.  Usage:  tools/regress_c06_c15.py [C06|C15 ...]
"""
import glob, json, os, re, shutil, subprocess, sys, tempfile, time

VERIF = os.path.dirname(os.path.dirname(os.path.abspath(__file__)))
props = [a for a in sys.argv[1:] if re.fullmatch(r"C\d\d", a)] or ["C15", "C06"]
extra = [a.split(":", 1) for a in sys.argv[1:] if ":" in a]


def check(prop, repo=None):
    env = dict(os.environ)
    if repo:
        env["ARMI_REPO"] = repo
    t = time.time()
    p = subprocess.run(["./check", prop, "quick"], cwd=VERIF, env=env, capture_output=True, text=True)
    keys = []
    for line in p.stdout.split("\n"):
        m = re.match(r"VIOLATION property=\S+ replay=(\S+)", line)
        if m:
            path = os.path.join(VERIF, m.group(1))
            d = json.load(open(path))
            keys.append(d.get("key") or d.get("kind"))
            if repo:
                os.remove(path)
    return p.returncode, keys, time.time() - t


bad = 0
work = tempfile.mkdtemp(prefix="regress-")
try:
    shutil.copytree("/repo/armi", os.path.join(work, "armi"))
    jobs = [(os.path.basename(os.path.dirname(f)).split("-")[0], f)
            for f in sorted(glob.glob(os.path.join(VERIF, "seeded", "_incoming*", "C*-*", "patch.diff")))]
    jobs = [(p, f) for p, f in jobs if p in props] + [(p, f) for p, f in extra]
    for prop, patch in jobs:
        a = subprocess.run(["patch", "-p1", "--no-backup-if-mismatch", "-i", patch], cwd=work, capture_output=True, text=True)
        if a.returncode != 0:
            print(f"{prop} {patch}: PATCH DOES NOT APPLY ({a.stdout.strip()[:120]})", flush=True)
            bad += 1
        else:
            rc, keys, dt = check(prop, work)
            ok = rc == 1 and keys
            bad += 0 if ok else 1
            print(f"{prop} {os.path.relpath(patch, VERIF)}: exit {rc} {'CAUGHT' if ok else 'MISSED'} {keys[:4]} {dt:.0f}s", flush=True)
        subprocess.run(["patch", "-R", "-p1", "--no-backup-if-mismatch", "-i", patch], cwd=work, capture_output=True, text=True)
        if subprocess.run(["diff", "-rq", "-x", "__pycache__", "/repo/armi", os.path.join(work, "armi")], capture_output=True).returncode != 0:
            shutil.rmtree(os.path.join(work, "armi")); shutil.copytree("/repo/armi", os.path.join(work, "armi"))
    for prop in props:
        rc, keys, dt = check(prop)
        print(f"{prop} unchanged tree: exit {rc} {keys} {dt:.0f}s", flush=True)
        bad += 0 if rc == 0 else 1
finally:
    shutil.rmtree(work, ignore_errors=True)
sys.exit(1 if bad else 0)
