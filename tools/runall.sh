#!/bin/bash
# tools/runall.sh [quick|thorough] [props...]  -- run checks, up to $J in parallel, print a summary
cd "$(dirname "$0")/.." || exit 2
tier=${1:-quick}; shift
props=${@:-$(ls harness/c[0-9][0-9].py | sed 's/.*c\([0-9][0-9]\).py/C\1/')}
J=${J:-4}
mkdir -p /tmp/runall
run() { p=$1; s=$(date +%s); ./check $p $tier > /tmp/runall/$p.$tier.log 2>&1; rc=$?; e=$(date +%s); echo "$p exit=$rc wall=$((e-s))s $(grep -c '^VIOLATION' /tmp/runall/$p.$tier.log) violations, $(grep -c '^KNOWN-FINDING' /tmp/runall/$p.$tier.log) known | $(tail -1 /tmp/runall/$p.$tier.log | cut -c1-200)"; }
export -f run; export tier
echo $props | tr ' ' '\n' | xargs -P $J -I{} bash -c 'run {}'
