#!/usr/bin/env python3
"""Validate a seeded change produced by an independent sub-agent and run our check against it.

usage: tools/seedcheck.py <prop> <dir-with-patch.diff+demo.py+meta.json> [--keep-as <name>] [--tier quick]

Steps (all in a private scratch worktree of /repo under /tmp, removed afterwards):
  1. demo.py on the clean tree  -> must exit 0
  2. apply patch.diff           -> must apply
  3. demo.py on the patched tree-> must exit non-zero
  4. pinned suite on patched tree, compared with BASELINE stable_pass -> missing must be 0
  5. ARMI_REPO=<patched tree> ./check <prop> <tier>  -> record exit code and VIOLATION lines
If 1-4 hold and --keep-as is given, the change is stored as /verif/seeded/<name>/ with meta.json
extended by what was run and whether the check caught it.
"""
import json
import os
import shutil
import subprocess
import sys
import time

VERIF = os.path.dirname(os.path.dirname(os.path.abspath(__file__)))


def sh(cmd, cwd=None, env=None, timeout=3600):
    p = subprocess.run(cmd, shell=True, cwd=cwd, env=env, capture_output=True, text=True, timeout=timeout)
    return p.returncode, p.stdout + p.stderr


def main():
    prop, src = sys.argv[1], os.path.abspath(sys.argv[2])
    keep = sys.argv[sys.argv.index("--keep-as") + 1] if "--keep-as" in sys.argv else None
    tier = sys.argv[sys.argv.index("--tier") + 1] if "--tier" in sys.argv else "quick"
    skip_suite = "--skip-suite" in sys.argv
    wt = f"/tmp/seedrun-{prop}-{os.getpid()}"
    res = {"property": prop, "source": src}
    rc, out = sh(f"git -C /repo worktree add --detach {wt} HEAD -q")
    if rc:
        print(out)
        return 2
    try:
        shutil.copy(f"{src}/demo.py", f"{wt}/_seed_demo.py")
        rc, out = sh("/venv/bin/python _seed_demo.py", cwd=wt, timeout=1200)
        res["demo_clean_exit"] = rc
        if rc != 0:
            res["demo_clean_tail"] = out[-800:]
        rc, out = sh(f"git apply {src}/patch.diff", cwd=wt)
        if rc:
            rc, out = sh(f"git apply --3way {src}/patch.diff && git reset -q", cwd=wt)
            res["applied_3way"] = rc == 0
        res["patch_applies"] = rc == 0
        if rc:
            res["apply_err"] = out[-500:]
            print(json.dumps(res, indent=1))
            return 1
        rc, out = sh("/venv/bin/python _seed_demo.py", cwd=wt, timeout=1200)
        res["demo_patched_exit"] = rc
        res["demo_patched_tail"] = out[-600:]
        if not skip_suite:
            junit = f"{wt}/junit-seed.xml"
            sh(f"/venv/bin/python -m pytest -q -p no:cacheprovider --timeout=900 --continue-on-collection-errors --junitxml={junit}", cwd=wt)
            rc, out = sh(f"python3 {VERIF}/tools/baseline_compare.py {junit}")
            res["suite"] = out.strip().split("\n")[0]
            res["suite_ok"] = rc == 0
            os.remove(junit)
        sh("git status --short | grep -v '^ M' | awk '{print $2}' | xargs -r rm -rf", cwd=wt)
        env = dict(os.environ, ARMI_REPO=wt, VERIF_NO_LEANCHECKER="1")
        t0 = time.time()
        if "--no-check" in sys.argv:
            rc, out = -1, ""
        else:
            rc, out = sh(f"./check {prop} {tier}", cwd=VERIF, env=env, timeout=7200)
        res["check_exit"] = rc
        res["check_wall_s"] = round(time.time() - t0, 1)
        res["check_lines"] = [l for l in out.split("\n") if l.startswith(("VIOLATION", "KNOWN-FINDING", "INFRA", prop))][:12]
        if rc == 2:
            res["check_tail"] = out[-1500:]
        # replay detail of the first violation
        for l in res["check_lines"]:
            if l.startswith("VIOLATION") and "replay=" in l:
                rp = l.split("replay=")[1].split()[0]
                try:
                    d = json.load(open(os.path.join(VERIF, rp)))
                    res["first_replay"] = {k: d.get(k) for k in ("kind", "key", "clause", "case", "observed", "expected")}
                except Exception:
                    pass
                break
        valid = res.get("demo_clean_exit") == 0 and res.get("demo_patched_exit", 0) != 0 and res.get("suite_ok", skip_suite)
        res["valid_seed"] = bool(valid)
        res["caught"] = rc == 1
        if keep and valid:
            dst = os.path.join(VERIF, "seeded", keep)
            os.makedirs(dst, exist_ok=True)
            shutil.copy(f"{src}/patch.diff", dst)
            shutil.copy(f"{src}/demo.py", dst)
            meta = {}
            try:
                meta = json.load(open(f"{src}/meta.json"))
            except Exception:
                pass
            meta.update({"breaks_property": prop,
                         "confirmed": {"demo_clean_exit": res["demo_clean_exit"], "demo_patched_exit": res["demo_patched_exit"],
                                       "suite": res.get("suite"),
                                       "how": "scratch worktree of /repo HEAD; demo before/after git apply; pinned suite vs BASELINE stable_pass; "
                                              f"ARMI_REPO=<patched worktree> ./check {prop} {tier}"},
                         "check_result": {"exit": rc, "lines": res["check_lines"], "first_replay": res.get("first_replay")}})
            json.dump(meta, open(os.path.join(dst, "meta.json"), "w"), indent=1)
    finally:
        sh(f"git -C /repo worktree remove --force {wt}")
        shutil.rmtree(wt, ignore_errors=True)
    print(json.dumps(res, indent=1, default=str))
    return 0


if __name__ == "__main__":
    sys.exit(main())
