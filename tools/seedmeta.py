#!/usr/bin/env python3
"""Post-process seeded/<id>/meta.json: add the round history and the suite confirmation."""
import glob, json, os, re
V = os.path.dirname(os.path.dirname(os.path.abspath(__file__)))
fp2 = json.load(open(os.path.join(V, "seeded", "ROUND2_FIRSTPASS.json")))
fp3 = {}
p3 = os.path.join(V, "seeded", "ROUND3_FIRSTPASS.json")
if os.path.exists(p3):
    fp3 = json.load(open(p3))
fp4 = {}
p4 = os.path.join(V, "seeded", "ROUND4_FIRSTPASS.json")
if os.path.exists(p4):
    fp4 = json.load(open(p4))
fpN = {3: fp3, 4: fp4}
for n in range(5, 10):
    pn = os.path.join(V, "seeded", f"ROUND{n}_FIRSTPASS.json")
    if os.path.exists(pn):
        fpN[n] = json.load(open(pn))
def suite_of(rnd, name):
    for base in ({1: "/tmp/seedval"}.get(rnd, f"/tmp/seedres{rnd}"),):
        f = os.path.join(base, name + ".json")
        if os.path.exists(f):
            t = open(f).read()
            try:
                d = json.loads(t[t.index("{"):])
                return d.get("suite")
            except Exception:
                pass
    return None
for d in sorted(glob.glob(os.path.join(V, "seeded", "C*")) + glob.glob(os.path.join(V, "seeded", "_obsolete", "C*"))):
    m = re.match(r"(C\d+)-r(\d)-(\d)", os.path.basename(d))
    if not m:
        continue
    prop, rnd, k = m.group(1), int(m.group(2)), m.group(3)
    mp = os.path.join(d, "meta.json")
    meta = json.load(open(mp))
    key = f"{prop}-{k}"
    if rnd == 1:
        meta["history"] = "round 1: its scenario class was passed to the builder as a generator note while the check was still being built"
    elif rnd == 2:
        r = fp2.get(key, {})
        meta["history"] = ("round 2, first pass without hints: " + ("caught" if r.get("check_exit") == 1 else f"MISSED (exit {r.get('check_exit')})")
                           + ("; scenario class then added to the harness" if r.get("check_exit") != 1 else ""))
    else:
        r = fpN.get(rnd, {}).get(key, {})
        if r:
            meta["history"] = (f"round {rnd}, first pass without hints: " + ("caught" if r.get("check_exit") == 1 else f"MISSED (exit {r.get('check_exit')})")
                               + ("; scenario class then added to the harness" if r.get("check_exit") != 1 else ""))
            if r.get("check_exit") != 1 and (meta.get("check_result") or {}).get("exit") == 0:
                meta["history"] = (f"round {rnd}, first pass without hints: MISSED (exit 0); OPEN GAP: the scenario class is not yet "
                                   "covered by the committed check (see DESIGN.md 11.0a)")
    conf = meta.setdefault("confirmed", {})
    if not conf.get("suite"):
        s = suite_of(rnd, key)
        if s:
            conf["suite"] = s
    if "_obsolete" in d and not meta.get("obsolete"):
        meta["obsolete"] = ("valid and caught when delivered; a later fix: commit in /repo removed the latent defect the change relied on, "
                            "so on the current tree the patch no longer breaks the property (demo exits 0 with the patch)")
    json.dump(meta, open(mp, "w"), indent=1)
print("seed metadata updated")
