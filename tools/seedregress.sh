#!/bin/bash
# tools/seedregress.sh [props...]  -- self-test: apply every kept seeded change (seeded/<prop>-r<round>-<k>/patch.diff)
# in a scratch worktree of /repo and require `./check <prop> quick` (ARMI_REPO=<worktree>) to exit 1.
# Prints one line per change; exit 1 if any valid change is missed. /repo itself is never touched.
cd "$(dirname "$0")/.." || exit 2
props=${@:-$(ls seeded | grep -o '^C[0-9][0-9]' | sort -u)}
J=${J:-4}
mkdir -p /tmp/seedregress
one() { d=$1; n=$(basename $d); p=${n%%-*}; python3 tools/seedcheck.py $p $d --skip-suite > /tmp/seedregress/$n.json 2>&1; python3 - /tmp/seedregress/$n.json $n <<'PY'
import json,sys
t=open(sys.argv[1]).read()
try:
    d=json.loads(t[t.index('{'):])
    st='CAUGHT' if d.get('caught') else ('OBSOLETE(demo no longer fails)' if not d.get('valid_seed') else 'MISSED')
    print(sys.argv[2], st, 'exit', d.get('check_exit'), d.get('check_wall_s'), 's', (d.get('first_replay') or {}).get('key'))
except Exception:
    print(sys.argv[2], 'ERROR', t[-200:])
PY
}
export -f one
for p in $props; do ls -d seeded/$p-r*-* 2>/dev/null; done | xargs -P $J -I{} bash -c 'one {}' | tee /tmp/seedregress/summary.txt
! grep -q "MISSED\|ERROR" /tmp/seedregress/summary.txt
