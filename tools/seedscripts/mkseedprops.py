#!/usr/bin/env python3
"""mkseedprops.py <round-dir> : write <round-dir>/Cxx.property.txt for the seed agents: the property text
(from properties.jsonl) plus the list of changes already taken by earlier rounds (summaries only)."""
import glob, json, os, sys
V = os.path.dirname(os.path.dirname(os.path.dirname(os.path.abspath(__file__))))
out = sys.argv[1]
for line in open(f"{V}/properties.jsonl"):
    p = json.loads(line)
    pid = p["id"]
    a = p.get("anchors") or {}
    txt = [f"Property {pid}: {p.get('title')}", "", f"Statement: {p.get('statement')}", "",
           f"Quantified over: {(p.get('quantifier') or {}).get('text') if isinstance(p.get('quantifier'), dict) else p.get('quantifier')}", ""]
    if isinstance(a, dict):
        txt.append("Source files the property is anchored in: " + ", ".join(a.get("files", [])))
        txt.append("Mechanisms: " + "; ".join(f"{m.get('name')} ({m.get('where')})" if isinstance(m, dict) else str(m)
                                                for m in (a.get("mechanism") or a.get("mechanisms") or [])))
    else:
        txt.append("Anchors: " + json.dumps(a))
    txt += ["", "", "Changes ALREADY TAKEN by earlier rounds (choose different mechanisms / different code sites; prefer "
            "clauses of the property statement and anchored mechanisms that none of these touches):"]
    for d in sorted(glob.glob(f"{V}/seeded/_incoming*/{pid}-*")):
        try:
            m = json.load(open(d + "/meta.json"))
        except Exception:
            continue
        txt.append(f"- already taken: {str(m.get('summary'))[:300]} (files: {m.get('files_touched')})")
    open(f"{out}/{pid}.property.txt", "w").write("\n".join(txt) + "\n")
print("ok")
