#!/bin/bash
# run the property's quick check against each delivered behaviour-preserving rewrite; expected: exit 0
cd /verif; mkdir -p /tmp/refacres refactors/_incoming
one() { p=$1; for k in 1 2; do d=/tmp/refac1/$p/out/$k; [ -f $d/patch.diff ] || continue; mkdir -p refactors/_incoming/$p-$k; cp $d/patch.diff $d/meta.json refactors/_incoming/$p-$k/ 2>/dev/null; python3 tools/refaccheck.py $p refactors/_incoming/$p-$k --keep-as $p-f1-$k > /tmp/refacres/$p-$k.json 2>&1; done; }
export -f one
echo "$@" | tr ' ' '\n' | xargs -P 4 -I{} bash -c 'one {}'
for p in "$@"; do for k in 1 2; do f=/tmp/refacres/$p-$k.json; [ -f $f ] || continue; python3 - $f <<'PY'
import json,sys
t=open(sys.argv[1]).read()
try:
    d=json.loads(t[t.index('{'):]); print(sys.argv[1].split('/')[-1], d.get('suite','')[-40:], 'QUIET' if d.get('check_exit')==0 else 'ALARM exit %s'%d.get('check_exit'), d.get('check_wall_s'),'s', (d.get('first_replay') or {}).get('key'))
except Exception as e: print(sys.argv[1],'PARSE',t[-300:])
PY
done; done
