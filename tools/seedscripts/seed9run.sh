#!/bin/bash
cd /verif; mkdir -p /tmp/seedres9 seeded/_incoming9
one() { p=$1; for k in 1 2; do d=/tmp/seed9/$p/out/$k; [ -f $d/patch.diff ] || continue; mkdir -p seeded/_incoming9/$p-$k; cp $d/patch.diff $d/demo.py $d/meta.json seeded/_incoming9/$p-$k/ 2>/dev/null; python3 tools/seedcheck.py $p seeded/_incoming9/$p-$k --keep-as $p-r9-$k > /tmp/seedres9/$p-$k.json 2>&1; done; }
export -f one
echo "$@" | tr ' ' '\n' | xargs -P 8 -I{} bash -c 'one {}'
for f in /tmp/seedres9/*.json; do python3 - $f <<'PY'
import json,sys
t=open(sys.argv[1]).read()
try:
    d=json.loads(t[t.index('{'):]); print(sys.argv[1].split('/')[-1], 'valid' if d.get('valid_seed') else 'INVALID', 'CAUGHT' if d['caught'] else 'MISSED', 'exit',d['check_exit'], d['check_wall_s'],'s', (d.get('first_replay') or {}).get('key'))
except Exception as e: print(sys.argv[1],'PARSE',t[-300:])
PY
done
