#!/bin/bash
# final pass: every seed of rounds 1-3 against the current checks; keep as seeded/<id>
cd /verif; rm -rf /tmp/seedfinal; mkdir -p /tmp/seedfinal
one() { p=$1; for r in 1 2 3 4 5 6 7 8; do for k in 1 2; do
  case $r in 1) src=seeded/_incoming/$p-$k;; 2) src=seeded/_incoming2/$p-$k;; 3) src=seeded/_incoming3/$p-$k;; 4) src=seeded/_incoming4/$p-$k;; 5) src=seeded/_incoming5/$p-$k;; 6) src=seeded/_incoming6/$p-$k;; 7) src=seeded/_incoming7/$p-$k;; 8) src=seeded/_incoming8/$p-$k;; esac
  name=$p-r$r-$k
  [ -f $src/patch.diff ] || continue
  [ -d seeded/_obsolete/$name ] && continue
  python3 tools/seedcheck.py $p $src --skip-suite --keep-as $name > /tmp/seedfinal/$name.json 2>&1
done; done; }
export -f one
echo "$@" | tr ' ' '\n' | xargs -P ${J:-5} -I{} bash -c 'one {}'
for f in /tmp/seedfinal/*.json; do python3 - $f <<'PY'
import json,sys
t=open(sys.argv[1]).read()
try:
    d=json.loads(t[t.index('{'):]); print(sys.argv[1].split('/')[-1], 'applies' if d.get('patch_applies') else 'NOAPPLY', 'valid' if d.get('valid_seed') else 'INVALID', 'CAUGHT' if d.get('caught') else 'MISSED', 'exit',d.get('check_exit'), d.get('check_wall_s'),'s', (d.get('first_replay') or {}).get('key'))
except Exception as e: print(sys.argv[1],'PARSE',t[-300:])
PY
done
