#!/usr/bin/env python3
"""Print the markdown table of kept seeded changes (seeded/<id>/meta.json)."""
import json, os, glob
VERIF = os.path.dirname(os.path.dirname(os.path.abspath(__file__)))
print("| seeded change | property | what it changes / needs to manifest | caught by (check exit, first failing clause key) |")
print("|---|---|---|---|")
for d in sorted(glob.glob(os.path.join(VERIF, "seeded", "C*"))):
    try:
        m = json.load(open(os.path.join(d, "meta.json")))
    except Exception:
        continue
    cr = m.get("check_result", {})
    key = (cr.get("first_replay") or {}).get("key")
    s = (m.get("summary") or "").replace("|", "/").replace("\n", " ")[:230]
    n = (m.get("needs_to_manifest") or "").replace("|", "/").replace("\n", " ")[:200]
    print(f"| `{os.path.basename(d)}` | {m.get('breaks_property')} | {s} — needs: {n} | exit {cr.get('exit')}, `{key}` |")
